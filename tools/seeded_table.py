#!/usr/bin/env python3
"""Rewrite the seeded-changes table in DESIGN.md (between the seeded-table markers) from seeded/*/meta.json and checks.json."""
import json, glob, os, re
rows = ["| seeded change | what it does | caught by | runs (quick tier, repaired tree unless noted) |", "|---|---|---|---|"]
old = {}
d = open('/verif/DESIGN.md').read()
m = re.search(r'<!-- seeded-table-begin -->\n(.*?)<!-- seeded-table-end -->', d, re.S)
for line in m.group(1).splitlines():
    c = [x.strip() for x in line.strip().strip('|').split('|')]
    if len(c) >= 4 and re.match(r'C\d\d-[A-Z]$', c[0]):
        old[c[0]] = line
for sd in sorted(glob.glob('/verif/seeded/C*')):
    sid = os.path.basename(sd)
    if sid in old and not sid.endswith('-C') and not os.environ.get('REBUILD_ALL'):
        rows.append(old[sid]); continue
    meta = json.load(open(sd + '/meta.json'))
    ck = json.load(open(sd + '/checks.json')) if os.path.exists(sd + '/checks.json') else {"runs": [], "caught_by": []}
    title = re.sub(r'^C\d\d\s*/\s*[A-Z]\s*-\s*', '', meta['title'])
    title = re.sub(r'^(\*\*)?Title:?(\*\*)?:?\s*', '', title).strip().strip('`"').replace('|', '/')
    runs = '; '.join(f"{r['check']}: exit {r.get('exit')}" + (f" ({', '.join(r['obligations'][:2])})" if r.get('obligations') else '') for r in ck['runs'])
    rows.append(f"| {sid} | {title[:160]} | {', '.join(ck['caught_by']) or '**not caught**'} | {runs} |")
new = "<!-- seeded-table-begin -->\n" + "\n".join(rows) + "\n<!-- seeded-table-end -->"
d = d[:m.start()] + new + d[m.end():]
open('/verif/DESIGN.md', 'w').write(d)
print(len(rows) - 2, "rows")

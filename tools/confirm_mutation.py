#!/usr/bin/env python3
"""Confirm a candidate seeded change in a scratch worktree of /repo:
  1. the demonstration test passes on the unchanged tree,
  2. with the change applied everything still builds,
  3. the demonstration fails with the change,
  4. every test of the pinned baseline (stable_pass in /root/.vp/BASELINE.json) still passes with the change.
usage: confirm_mutation.py <dir with patch.diff, *_test.go, README.md> <out.json>
The worktree (with its build output) is removed at the end."""
import json, os, re, subprocess, sys, shutil, tempfile, glob

src, out = sys.argv[1], sys.argv[2]
env = dict(os.environ, GOPROXY="off", GOSUMDB="off", GOTOOLCHAIN="local", GOFLAGS="")
mods = [l.strip() for l in open('/w/out/gomods.txt') if l.strip()]
stable = set(json.load(open('/root/.vp/BASELINE.json'))['stable_pass'])
wt = tempfile.mkdtemp(prefix='confirm-', dir='/tmp')
os.rmdir(wt)
res = {"source": src, "steps": []}

def sh(cmd, cwd, timeout=1800):
    p = subprocess.run(cmd, cwd=cwd, env=env, shell=True, stdout=subprocess.PIPE, stderr=subprocess.STDOUT, timeout=timeout)
    return p.returncode, p.stdout.decode(errors='replace')

def module_of(rel):
    best = '.'
    for m in mods:
        mm = m[2:] if m.startswith('./') else m
        if mm != '.' and (rel == mm or rel.startswith(mm + '/')) and len(mm) > len(best):
            best = mm
    return best

try:
    rc, o = sh(f"git -C /repo worktree add --detach {wt} {os.environ.get('CONFIRM_BASE', 'e5ea942')}", "/repo")
    assert rc == 0, o
    readme = open(os.path.join(src, 'README.md')).read()
    demos = []
    for t in sorted(glob.glob(os.path.join(src, '*_test.go'))):
        b = os.path.basename(t)
        m = [x for x in re.findall(r'[A-Za-z0-9_./-]*/' + re.escape(b), readme) if 'MUTATION' not in x]
        assert m, "no destination for " + b
        demos.append((t, m[0].lstrip('./')))
    names = []
    for t, _ in demos:
        names += re.findall(r'^func (Test\w+)\(', open(t).read(), re.M)
    pkgdir = os.path.dirname(demos[0][1])
    mod = module_of(pkgdir)
    relpkg = './' + os.path.relpath(pkgdir, mod) if mod != '.' else './' + pkgdir
    runre = '^(' + '|'.join(names) + ')$'
    def run_demo():
        return sh(f"go test -vet=off -count=1 -timeout 10m -run '{runre}' {relpkg}", os.path.join(wt, mod), 900)
    def put_demos():
        for t, d in demos:
            shutil.copy(t, os.path.join(wt, d))
    def del_demos():
        for _, d in demos:
            os.remove(os.path.join(wt, d))
    # 1. demonstration on the unchanged tree
    put_demos()
    rc, o = run_demo()
    res["steps"].append({"step": "demo on unchanged tree", "cmd": f"go test -run '{runre}' {relpkg} (in {mod})", "exit": rc, "tail": o[-1500:]})
    res["demo_passes_unchanged"] = rc == 0
    del_demos()
    # 2. apply + build
    rc, o = sh(f"git apply {os.path.join(src, 'patch.diff')}", wt)
    assert rc == 0, "patch does not apply: " + o
    ok = True
    for m in mods:
        rc, o = sh("go build ./... && go test -vet=off -count=1 -run '^$' ./... > /dev/null", os.path.join(wt, m), 1200)
        ok = ok and rc == 0
        if rc != 0:
            res["steps"].append({"step": "build " + m, "exit": rc, "tail": o[-1500:]})
    res["builds_with_change"] = ok
    # 3. demonstration with the change
    put_demos()
    rc, o = run_demo()
    res["steps"].append({"step": "demo with change", "exit": rc, "tail": o[-2500:]})
    res["demo_fails_with_change"] = rc != 0 and ('--- FAIL' in o or 'panic:' in o or 'FAIL' in o) and 'build failed' not in o
    del_demos()
    # 4. the pinned suite with the change
    passed, failed = set(), set()
    for m in mods:
        rc, o = sh("go test -json -vet=off -count=1 -timeout 25m ./...", os.path.join(wt, m), 1800)
        for line in o.splitlines():
            try:
                ev = json.loads(line)
            except Exception:
                continue
            if ev.get('Test') and ev.get('Action') in ('pass', 'fail'):
                key = ev['Package'] + '::' + ev['Test']
                (passed if ev['Action'] == 'pass' else failed).add(key)
    missing = sorted(t for t in stable if t not in passed)
    res["suite_stable_tests"] = len(stable)
    res["suite_stable_passed"] = len(stable) - len(missing)
    res["suite_not_passing"] = missing
    res["suite_passes_with_change"] = not missing
    res["confirmed"] = bool(res["demo_passes_unchanged"] and res["builds_with_change"] and res["demo_fails_with_change"] and res["suite_passes_with_change"])
except Exception as e:
    res["error"] = repr(e)
    res["confirmed"] = False
finally:
    subprocess.run(f"git -C /repo worktree remove --force {wt}", shell=True, stdout=subprocess.DEVNULL, stderr=subprocess.DEVNULL)
    shutil.rmtree(wt, ignore_errors=True)
    subprocess.run("git -C /repo worktree prune", shell=True)
json.dump(res, open(out, 'w'), indent=1)
print(src, "confirmed" if res["confirmed"] else "NOT CONFIRMED", {k: v for k, v in res.items() if k not in ("steps", "source")})

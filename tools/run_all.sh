#!/bin/bash
# runs every registered check (quick by default) sequentially, prints one summary line each
TIER=${1:-quick}
cd /verif
for p in $(python3 -c "import json;print(' '.join(c['property_id'] for c in json.load(open('MANIFEST.json'))['checks']))"); do
  s=$(date +%s)
  timeout 3000 ./bin/gosym check $p --tier $TIER > /tmp/all_$p.log 2>&1
  rc=$?
  e=$(date +%s)
  echo "$p rc=$rc $((e-s))s $(grep -c '^KNOWN-FINDING' /tmp/all_$p.log) known, $(grep -c '^VIOLATION' /tmp/all_$p.log) viol, $(grep -c '^INCONCLUSIVE' /tmp/all_$p.log) inconcl"
done

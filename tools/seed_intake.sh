#!/bin/bash
# usage: seed_intake.sh <Cxx-S>  -- take a sub-agent's deliverables from /tmp/seed/<id>/_seed into
# /verif/seeded/<id>/ and confirm them in a scratch worktree (serialised with other test runs by flock)
set -u
ID=$1
SRC=/tmp/seed/$ID/_seed
DST=/verif/seeded/$ID
mkdir -p $DST
cp $SRC/patch.diff $SRC/README.md $SRC/*_test.go $DST/ 2>/dev/null
git -C /repo apply --check $DST/patch.diff || { echo "$ID: patch does not apply to /repo"; exit 2; }
CONFIRM_BASE=HEAD flock /tmp/seed/gotest.lock python3 /verif/tools/confirm_mutation.py $DST $DST/confirm.json

#!/bin/bash
# usage: try_mutation.sh <Cxx> <patch.diff> [tier]   -- applies the patch to /repo, runs the check, reverts
set -u
P=$1; PATCH=$2; TIER=${3:-quick}
cd /repo || exit 2
if ! git -C /repo diff --quiet; then echo "repo dirty"; exit 2; fi
git -C /repo apply "$PATCH" || { echo "patch does not apply"; exit 2; }
GOSYM_BUDGET=${GOSYM_BUDGET:-200} timeout 900 /verif/bin/gosym check $P --tier $TIER > /tmp/mut_$P.log 2>&1
rc=$?
git -C /repo checkout -- . 
grep -E "^VIOLATION|^KNOWN-FINDING|^OK|^INCONCLUSIVE|^  obligation" /tmp/mut_$P.log | cut -c1-220 | head -12
echo "exit=$rc"

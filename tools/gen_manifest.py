#!/usr/bin/env python3
"""Regenerates /verif/MANIFEST.json from the table below (single source of truth)."""
import json, os, sys

BASE = json.load(open('/root/.vp/BASELINE.json'))

# id -> (level text, level note, design ref)   (claimed checks)
CLAIMED = {}
# id -> reason (not claimed)
NOT_APPLICABLE = {}

def load_table():
    p = os.path.join(os.path.dirname(__file__), 'checks_table.json')
    t = json.load(open(p))
    for k, v in t['claimed'].items():
        CLAIMED[k] = v
    for k, v in t['not_applicable'].items():
        NOT_APPLICABLE[k] = v

def main():
    load_table()
    checks = []
    for pid in sorted(CLAIMED):
        c = CLAIMED[pid]
        checks.append({
            "property_id": pid,
            "quick_cmd": f"/verif/bin/gosym check {pid} --tier quick",
            "thorough_cmd": f"/verif/bin/gosym check {pid} --tier thorough",
            "evidence_file": f"/verif/evidence/{pid}.json",
            "replay_cmd_template": "/verif/bin/gosym replay {path}",
            "engine": "gosym",
            "level_claimed": {"category": "model_checking", "text": c["text"], "design_ref": c.get("design_ref", "DESIGN.md §3 " + pid)},
            "level_note": c["note"],
            "technique": c.get("technique", "bounded symbolic execution of the real go/ssa + SMT (z3): every path feasibility and every obligation is a solver query; counterexample models replayed natively"),
        })
    m = {
        "version": 1,
        "setup_cmd": "cd /verif/engine && GOFLAGS=-mod=mod GOPROXY=off GOSUMDB=off GOTOOLCHAIN=local go build -o /verif/bin/gosym .",
        "hooks": {
            "guard": "verif",
            "enable": "none needed: harness files and the internal/verifnd package are copied into a scratch mirror of /repo's working tree on every run; no hook exists in /repo",
            "baseline_off_cmd": BASE["cmd"],
            "source_commits": [],
            "add_only": True,
        },
        "engines": [{
            "name": "gosym",
            "path": "/verif/engine",
            "serves_properties": sorted(CLAIMED),
            "kind_free_text": "own path-forking symbolic interpreter of go/ssa (x/tools v0.29.0) with hash-consed bit-vector terms, one incremental z3 process per harness, DFS by re-execution, native replay of solver models via go test",
        }],
        "checks": checks,
        "not_applicable": [{"property_id": k, "reason": NOT_APPLICABLE[k]} for k in sorted(NOT_APPLICABLE)],
        "notes": "Solver-based checking of the real code. Exit 0 = every obligation discharged within the stated bounds (known findings printed as KNOWN-FINDING); exit 1 = VIOLATION (reproduced natively); exit 2 = inconclusive (solver unknown, unwinding bound hit, unsupported construct, vacuous harness, unreproduced counterexample).",
    }
    json.dump(m, open('/verif/MANIFEST.json', 'w'), indent=1)
    print("wrote MANIFEST.json:", len(checks), "checks,", len(NOT_APPLICABLE), "not applicable")

main()

#!/usr/bin/env python3
"""(Re)build seeded/<id>/meta.json from the README of the change, the confirmation runs and checks.json."""
import json, os, re, glob
props = {json.loads(l)['id']: json.loads(l) for l in open('/verif/properties.jsonl')}
# titles for changes whose README does not start with one
TITLES = {
 "C04-C": "conns: first-flight buffer pooled with sync.Pool and released twice on the discard path (two later concurrent handlers share one buffer)",
 "C09-C": "registration: the New announcement is published to the detector after the registration mutex is released",
 "C10-C": "station: phantom address formatted once per registration (cached text goes stale when the registrar's phantom override is applied)",
 "C13-C": "regprocessor: selector read lock narrowed to each phantom selection (a reload can land between the v4 and v6 selections of one request)",
 "C16-C": "dtls: write flow control factored into waitWritable, writeMutex no longer held across stream.Write",
 "C18-C": "liveness LRU cache: Add reserves the LRU slot before writing the verdict to the map",
}
def section(readme, pat):
    m = re.search(r'^#+\s*[^\n]*(' + pat + r')[^\n]*\n(.*?)(?=^#+\s|\Z)', readme, re.M | re.S | re.I)
    return re.sub(r'\s+', ' ', m.group(2)).strip() if m else ''
for d in sorted(glob.glob('/verif/seeded/C*')):
    sid = os.path.basename(d)
    pid, v = sid.split('-')
    readme = open(d + '/README.md').read()
    title = readme.strip().split('\n')[0].lstrip('# ').strip()
    title = TITLES.get(sid, title)
    breaks = section(readme, r'broken|clause|breaks') or section(readme, r'change')
    needs = section(readme, r'needs')
    demos = sorted(os.path.basename(f) for f in glob.glob(d + '/*_test.go'))
    dest = {}
    for b in demos:
        m = [x for x in re.findall(r'[A-Za-z0-9_./-]*/' + re.escape(b), readme) if 'MUTATION' not in x]
        dest[b] = m[0].lstrip('./') if m else ''
    if sid == "C20-C" and os.path.exists(d + "/meta.json"):
        continue  # README uses inline (iv)/(v) markers: meta filled by hand
    meta = {"id": sid, "property": pid, "property_title": props[pid]['title'], "title": title,
            "breaks": breaks[:1500], "needs_to_manifest": needs[:1500],
            "files": {"patch": "patch.diff (applies to the current /repo tree)", "demonstration": dest, "description": "README.md (as written by the sub-agent that produced the change)"}}
    if os.path.exists(d + '/patch.orig.diff'):
        meta["files"]["patch_orig"] = "patch.orig.diff (as written, against the pinned snapshot e5ea942; patch.diff is the same change rebased by hand onto the tree with the fix: commits)"
    conf = []
    for name, base in ((d + '/confirm.json', 'repaired tree (HEAD 8236cf6)'), (f'/tmp/confirm/out/{pid}{v}.json', 'pinned snapshot e5ea942'), (f'/tmp/confirm/out/rebased-{sid}.json', 'repaired tree (HEAD at the time), rebased patch'), (f'/tmp/confirm/out/head-{sid}.json', 'repaired tree (HEAD at the time)')):
        if os.path.exists(name):
            c = json.load(open(name))
            conf.append({"base": base, "ran": "tools/confirm_mutation.py (scratch worktree, removed afterwards): demonstration on the unchanged tree; git apply; go build ./... and go test -run '^$' in all four modules; demonstration with the change; the pinned suite (go test -json ./... in all four modules) compared with stable_pass of /root/.vp/BASELINE.json",
                         "demo_passes_unchanged": c.get("demo_passes_unchanged"), "builds_with_change": c.get("builds_with_change"),
                         "demo_fails_with_change": c.get("demo_fails_with_change"), "pinned_tests_passing_with_change": f'{c.get("suite_stable_passed")}/{c.get("suite_stable_tests")}',
                         "confirmed": c.get("confirmed"), "demo_cmd": next((s.get("cmd") for s in c.get("steps", []) if s.get("cmd")), None)})
    old = json.load(open(d + '/meta.json')) if os.path.exists(d + '/meta.json') else {}
    meta["confirmation"] = conf or old.get("confirmation", [])
    if os.path.exists(d + '/checks.json'):
        ck = json.load(open(d + '/checks.json'))
        meta["checks"] = {"ran": "tools/seeded_matrix.py: git -C /repo apply patch.diff; /verif/bin/gosym check <id> --tier quick; git -C /repo checkout -- .", "repo_commit": ck.get("repo_commit"),
                          "caught_by": ck.get("caught_by"), "runs": ck.get("runs")}
    json.dump(meta, open(d + '/meta.json', 'w'), indent=1)
print("meta written for", len(glob.glob('/verif/seeded/C*')))

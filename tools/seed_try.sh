#!/bin/bash
# usage: seed_try.sh <Cxx-S> [check ids...]  -- development triage: run checks against the sub-agent's
# worktree (change applied) without touching /repo or /verif's evidence (engine pointed at copies)
set -u
ID=$1; shift
P=${ID%%-*}
CHECKS=${@:-$P}
rsync -a --delete --exclude .git --exclude replays /verif/ /tmp/verifcopy_$ID/
for c in $CHECKS; do
  GOSYM_VERIF=/tmp/verifcopy_$ID GOSYM_REPO=/tmp/seed/$ID GOSYM_BUDGET=${GOSYM_BUDGET:-250} timeout 1200 /verif/bin/gosym check $c --tier ${TIER:-quick} > /tmp/seed/try_${ID}_$c.log 2>&1
  rc=$?
  echo "== $ID vs $c: exit=$rc"
  grep -E "^VIOLATION|^KNOWN-FINDING|^OK|^INCONCLUSIVE|^  obligation" /tmp/seed/try_${ID}_$c.log | cut -c1-200 | sort | uniq -c | head -12
done
rm -rf /tmp/verifcopy_$ID

#!/usr/bin/env python3
"""Run the registered checks against every seeded change: apply seeded/<id>/patch.diff to /repo,
run the quick check of the property it breaks (plus any extra checks given in EXTRA), undo.
Writes seeded/<id>/checks.json.  usage: seeded_matrix.py [id ...]"""
import json, os, subprocess, sys, glob, re, time
EXTRA = {"C01-C": ["C14"], "C02-C": ["C04"], "C02-A": ["C08"], "C02-B": ["C08"], "C06-A": ["C07"], "C11-A": ["C02"], "C03-A": ["C02"], "C04-A": ["C02"]}
ids = sys.argv[1:] or sorted(os.path.basename(d) for d in glob.glob('/verif/seeded/C*'))
# the engine is pointed at a copy of /verif so that these runs do not overwrite the committed evidence and replays
subprocess.run("rsync -a --delete --exclude .git --exclude replays /verif/ /tmp/verifcopy_matrix/", shell=True, check=True)
env = dict(os.environ, GOSYM_BUDGET=os.environ.get("GOSYM_BUDGET", "300"), GOSYM_VERIF="/tmp/verifcopy_matrix")
for sid in ids:
    d = f'/verif/seeded/{sid}'
    prop = sid.split('-')[0]
    if subprocess.run("git -C /repo diff --quiet", shell=True).returncode != 0:
        print("repo dirty, stop"); sys.exit(2)
    res = {"seeded": sid, "repo_commit": subprocess.check_output("git -C /repo rev-parse --short HEAD", shell=True).decode().strip(), "runs": []}
    for chk in [prop] + EXTRA.get(sid, []):
        r = subprocess.run(f"git -C /repo apply {d}/patch.diff", shell=True, capture_output=True)
        if r.returncode != 0:
            res["runs"].append({"check": chk, "error": "patch does not apply: " + r.stderr.decode()[:300]}); continue
        t0 = time.time()
        try:
            p = subprocess.run(f"timeout 1500 /verif/bin/gosym check {chk} --tier quick", shell=True, capture_output=True, env=env)
            out = p.stdout.decode(errors='replace'); rc = p.returncode
        finally:
            subprocess.run("git -C /repo checkout -- .", shell=True)
        viol = re.findall(r'^VIOLATION property=\S+ replay=(\S+)\n  obligation (\S+) \(([\w ]+)\)', out, re.M)
        obl = sorted(set(o for _, o, _ in viol))
        res["runs"].append({"check": chk, "cmd": f"/verif/bin/gosym check {chk} --tier quick", "exit": rc, "violations": len(viol),
                            "obligations": obl[:8], "inconclusive": len(re.findall(r'^INCONCLUSIVE', out, re.M)), "wall_s": round(time.time() - t0, 1)})
        print(sid, chk, "exit", rc, "violations", len(viol), obl[:3], flush=True)
    res["caught_by"] = [r["check"] for r in res["runs"] if r.get("exit") == 1 and r.get("violations", 0) > 0]
    json.dump(res, open(d + '/checks.json', 'w'), indent=1)

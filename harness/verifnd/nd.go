// Package verifnd is the harness API of the /verif symbolic executor (gosym).
//
// In the engine every function below is intercepted (its body is never
// interpreted): values are fresh solver variables, Assume/Assert/Finding are
// solver queries.  The bodies here are the *native replay* implementation: the
// values come from a replay vector (a solver model written by gosym), so that a
// counterexample can be re-run against the natively compiled code.
package verifnd

import (
	"crypto/hmac"
	"crypto/sha256"
	"encoding/hex"
	"encoding/json"
	"fmt"
	"io"
	mrand "math/rand"
	"net"
	"os"
	"runtime"
	"sync"
	"time"

	"golang.org/x/crypto/hkdf"
)

type ndValue struct {
	Label string `json:"label"`
	Kind  string `json:"kind"`
	Hex   string `json:"hex,omitempty"`
	Int   int64  `json:"int"`
}

type replayFile struct {
	Harness    string    `json:"harness"`
	Obligation string    `json:"obligation"`
	Vector     []ndValue `json:"vector"`
}

var (
	mu       sync.Mutex
	vec      []ndValue
	pos      int
	loaded   bool
	Failed   []string
	Reached  []string
	Diverged bool
)

func load() {
	if loaded {
		return
	}
	loaded = true
	p := os.Getenv("VERIFND_REPLAY")
	if p == "" {
		return
	}
	b, err := os.ReadFile(p)
	if err != nil {
		panic("verifnd: " + err.Error())
	}
	var rf replayFile
	if err := json.Unmarshal(b, &rf); err != nil {
		panic("verifnd: " + err.Error())
	}
	vec = rf.Vector
}

// Reset re-reads the replay vector (used by generated replay tests).
func Reset() {
	mu.Lock()
	defer mu.Unlock()
	loaded = false
	pos = 0
	Failed = nil
	Reached = nil
	Diverged = false
	panicsOnly = false
	load()
}

var panicsOnly bool

// PanicsOnly turns the Assert calls of the rest of this run into no-ops: the
// harness of another property is re-used for its implicit obligations only (no
// panic, no stall, loops within bounds).
func PanicsOnly() { panicsOnly = true }

// random mode (VERIFND_RANDOM=<seed>): values are drawn at random instead of
// read from a vector; used to confirm natively that a marker the solver proved
// unreachable is indeed never reached.
var rnd *mrand.Rand

func SetRandom(seed int64) {
	mu.Lock()
	rnd = mrand.New(mrand.NewSource(seed))
	Failed, Reached, Diverged = nil, nil, false
	mu.Unlock()
}

func next(label, kind string) ndValue {
	mu.Lock()
	defer mu.Unlock()
	if rnd != nil {
		v := ndValue{Label: label, Kind: kind}
		switch kind {
		case "bool":
			v.Int = int64(rnd.Intn(2))
		case "u8":
			v.Int = int64(rnd.Intn(256))
		case "u16":
			v.Int = int64(rnd.Intn(1 << 16))
		case "u32":
			v.Int = int64(rnd.Uint32())
		default:
			v.Int = int64(rnd.Uint64())
		}
		return v
	}
	load()
	// entries of kind env-* record engine-side environment choices (random draws of the code
	// under test, modelled faults): the native run has its own environment
	for pos < len(vec) && len(vec[pos].Kind) > 4 && vec[pos].Kind[:4] == "env-" {
		pos++
	}
	if pos >= len(vec) {
		// beyond the recorded vector: the replay left the recorded path
		Diverged = true
		return ndValue{Label: label, Kind: kind}
	}
	v := vec[pos]
	pos++
	if v.Label != label {
		Diverged = true
		fmt.Printf("VERIFND-DIVERGED want %q got %q\n", label, v.Label)
	}
	return v
}

func Bool(label string) bool  { return next(label, "bool").Int != 0 }
func U8(label string) uint8   { return uint8(next(label, "u8").Int) }
func U16(label string) uint16 { return uint16(next(label, "u16").Int) }
func U32(label string) uint32 { return uint32(next(label, "u32").Int) }
func U64(label string) uint64 { return uint64(next(label, "u64").Int) }
func I64(label string) int64  { return next(label, "i64").Int }
func Int(label string) int    { return int(next(label, "i64").Int) }

// Bytes returns n arbitrary bytes.
func Bytes(label string, n int) []byte {
	if rnd != nil {
		mu.Lock()
		defer mu.Unlock()
		out := make([]byte, n)
		rnd.Read(out)
		return out
	}
	v := next(label, "bytes")
	b, _ := hex.DecodeString(v.Hex)
	out := make([]byte, n)
	copy(out, b)
	return out
}

// Range returns an arbitrary value in [lo,hi] (symbolic; assumed in range).
func Range(label string, lo, hi int) int {
	if rnd != nil {
		mu.Lock()
		defer mu.Unlock()
		return lo + int(rnd.Int63n(int64(hi-lo)+1))
	}
	v := int(next(label, "range").Int)
	if v < lo || v > hi {
		Diverged = true
	}
	return v
}

// Choose forks the exploration into n cases (an enumerated dimension).
func Choose(label string, n int) int {
	if rnd != nil {
		mu.Lock()
		defer mu.Unlock()
		return rnd.Intn(n)
	}
	return int(next(label, "choose").Int)
}

type assumeFailed struct{}

// Assume restricts the exploration to executions where c holds.
func Assume(c bool) {
	if !c {
		if rnd != nil {
			panic(assumeFailed{})
		}
		fmt.Println("VERIFND-ASSUME-FALSE")
		Diverged = true
		panic(assumeFailed{})
	}
}

// Cut is an Assume that removes feasible behaviour on purpose; it is listed in
// the evidence as outside the claim.
func Cut(name string, c bool) { Assume(c) }

// Assert is an obligation.
func Assert(c bool, name string) {
	if !c && !panicsOnly {
		mu.Lock()
		Failed = append(Failed, name)
		mu.Unlock()
		fmt.Printf("VERIFND-ASSERT-FAIL %s\n", name)
	}
}

// Reach is a vacuity witness: some explored path must get here.
func Reach(name string) {
	mu.Lock()
	Reached = append(Reached, name)
	mu.Unlock()
}

// Finding attributes failures on executions where cond holds to a known finding.
func Finding(id string, cond bool) {}

// Yield is an explicit scheduling point.
func Yield() { runtime.Gosched() }

// MapOrder makes map iteration order a (bounded) nondeterministic choice.
func MapOrder(on bool) {}

// Observe records a value in the trace (translator validation).
func Observe(label string, v interface{}) { fmt.Printf("VERIFND-OBS %s=%v\n", label, v) }

// Symbolic reports whether the code runs inside the symbolic executor.
func Symbolic() bool { return false }

// IsAssumeFailed reports whether a recovered panic value came from Assume.
func IsAssumeFailed(r interface{}) bool { _, ok := r.(assumeFailed); return ok }

// Thorough reports whether the thorough tier is running (deeper bounds).
func Thorough() bool { return os.Getenv("VERIF_TIER") == "thorough" }

// And / Or / Implies evaluate without short-circuit control flow, so that the
// symbolic executor sees one formula instead of forking per operand.
func And(cs ...bool) bool {
	for _, c := range cs {
		if !c {
			return false
		}
	}
	return true
}

func Or(cs ...bool) bool {
	for _, c := range cs {
		if c {
			return true
		}
	}
	return false
}

func Implies(a, b bool) bool { return !a || b }

// Ite returns a if c else b (as one formula).
func Ite(c bool, a, b int) int {
	if c {
		return a
	}
	return b
}

// BytesEq compares two byte slices as one formula.
func BytesEq(a, b []byte) bool {
	if len(a) != len(b) {
		return false
	}
	for i := range a {
		if a[i] != b[i] {
			return false
		}
	}
	return true
}

// MaxSymAlloc sets the largest symbolic allocation size the engine explores
// (a recorded cut; default 64).
func MaxSymAlloc(n int) {}

// HKDF returns n bytes at offset off of the HKDF-SHA256(secret, salt, info)
// output stream (in the engine: the same uninterpreted function the model of
// golang.org/x/crypto/hkdf uses).
func HKDF(secret, salt, info []byte, off, n int) []byte {
	r := hkdf.New(sha256.New, secret, salt, info)
	buf := make([]byte, off+n)
	if _, err := io.ReadFull(r, buf); err != nil {
		panic(err)
	}
	return buf[off:]
}

// HMACSHA256 is HMAC-SHA256(key, msg).
func HMACSHA256(key, msg []byte) []byte {
	h := hmac.New(sha256.New, key)
	h.Write(msg)
	return h.Sum(nil)
}

// CIDR prints an address/prefix-length pair the way an operator would write it.
func CIDR(ip []byte, ones int) string { return fmt.Sprintf("%s/%d", net.IP(ip).String(), ones) }

// IPString prints an address.
func IPString(ip []byte) string { return net.IP(ip).String() }

// LoopBound cuts paths on which any block of the named function is entered more
// than n times in one activation (a recorded cut, e.g. rejection-sampling rounds).
func LoopBound(fn string, n int) {}

// Sequential switches the engine's scheduler to run-to-block mode: the running
// thread is never pre-empted and the next thread is picked deterministically.
// For harnesses whose subject is not concurrency (background goroutines such
// as statistics tickers then never interleave).
func Sequential() {}

// Prefer is a soft constraint on the counterexample the solver reports (it
// never changes a verdict): models satisfying it are tried first, e.g. to pick
// a counterexample that does not depend on the value of a hash output.
func Prefer(cond bool) {}

// ---- file-system model (engine only; natively these operate on the real FS) ----

// OnCrash registers the oracle that runs when the modelled process dies at a
// crash point (engine only).
func OnCrash(f func()) {}

// FSPut creates a file with the given content.
func FSPut(name string, content []byte) { _ = os.WriteFile(name, content, 0o644) }

// FSIs reports whether the file exists with exactly this content.
func FSIs(name string, content []byte) bool {
	b, err := os.ReadFile(name)
	return err == nil && string(b) == string(content)
}

// FSExists reports whether the file exists.
func FSExists(name string) bool { _, err := os.Stat(name); return err == nil }

// FSList lists the files the model knows (engine) / nothing natively.
func FSList() []string { return nil }

// AbstractBigMod makes the engine treat big.Int.Mod of a symbolic value as an
// uninterpreted function constrained by r < m and (x < m -> r = x): a sound
// over-approximation for no-panic obligations where exact 128-bit remainders
// by a constant are out of the solvers' reach.  Native: no effect.
func AbstractBigMod() {}

// FixRandom makes crypto/rand deliver constant bytes in the engine (for code
// whose random draws only name things, e.g. temporary files).
func FixRandom(b byte) {}

// ---- structured host:port strings (C06) ----

// HostPort prints a covert-address string of a given textual shape: an address
// literal (ip: 4 or 16 bytes; mappedText prints 4 bytes as ::ffff:a.b.c.d) with
// optional zone, or a name; optionally bracketed; optionally followed by
// ":"+port.
func HostPort(ip []byte, mappedText bool, zone, name string, bracket, hasPort bool, port string) string {
	h := name
	if len(ip) > 0 {
		h = net.IP(ip).String()
		if mappedText {
			h = "::ffff:" + h
		}
		if zone != "" {
			h += "%" + zone
		}
	}
	if bracket {
		h = "[" + h + "]"
	}
	if hasPort {
		h += ":" + port
	}
	return h
}

// SplitResult parses "literal-address:port" (as accepted by net.Dial).
func SplitResult(s string) (ip []byte, zone string, port string, ok bool) {
	host, port, err := net.SplitHostPort(s)
	if err != nil {
		return nil, "", "", false
	}
	for i := 0; i < len(host); i++ {
		if host[i] == '%' {
			host, zone = host[:i], host[i+1:]
			break
		}
	}
	p := net.ParseIP(host)
	if p == nil {
		return nil, "", "", false
	}
	return p.To16(), zone, port, true
}

// ResolveCount: number of name resolutions performed so far (engine); -1 natively.
func ResolveCount() int { return -1 }

// LastResolved: the first answer of the scripted resolver (engine); nil natively.
func LastResolved() []byte { return nil }

// Settle lets every other goroutine run until it finishes or blocks.
func Settle() { time.Sleep(50 * time.Millisecond) }

// HTTPPosts: number of http.Post calls recorded by the engine (-1 natively).
func HTTPPosts() int { return -1 }

// HTTPPostBody returns the body of the i-th recorded http.Post (engine only).
func HTTPPostBody(i int) []byte { return nil }

// ---- detector channel (engine only) ----

// PublishedCount: number of messages published on Redis so far (-1 natively).
func PublishedCount() int { return -1 }

// Published returns the i-th published message (marshalled StationToDetector).
func Published(i int) []byte { return nil }

// DetectorRule reports whether the named acceptance rule is present in the
// detector's src/sessions.rs (1 present, 0 absent, -1 not recognised).
func DetectorRule(name string) int { return -1 }

// ShippedList returns a string-array key of the repository's shipped
// cmd/application/app_config.toml (read from the tree under test on this run).
func ShippedList(key string) []string {
	dir, _ := os.Getwd()
	for i := 0; i < 8; i++ {
		p := dir + "/cmd/application/app_config.toml"
		if b, err := os.ReadFile(p); err == nil {
			return ParseTomlStringList(string(b), key)
		}
		dir += "/.."
	}
	return nil
}

// ParseTomlStringList extracts `key = [ "a", "b", ... ]` (comments allowed).
func ParseTomlStringList(src, key string) []string {
	idx := -1
	for off := 0; ; {
		i := stringsIndex(src[off:], key)
		if i < 0 {
			break
		}
		i += off
		if i == 0 || src[i-1] == '\n' {
			idx = i
			break
		}
		off = i + 1
	}
	if idx < 0 {
		return nil
	}
	rest := src[idx+len(key):]
	lb := stringsIndex(rest, "[")
	if lb < 0 {
		return nil
	}
	out := []string{}
	inStr, inComment := false, false
	cur := ""
	for _, c := range rest[lb+1:] {
		switch {
		case inComment:
			if c == '\n' {
				inComment = false
			}
		case inStr:
			if c == '"' {
				inStr = false
				out = append(out, cur)
				cur = ""
			} else {
				cur += string(c)
			}
		case c == '"':
			inStr = true
		case c == '#':
			inComment = true
		case c == ']':
			return out
		}
	}
	return out
}

func stringsIndex(s, sub string) int {
	for i := 0; i+len(sub) <= len(s); i++ {
		if s[i:i+len(sub)] == sub {
			return i
		}
	}
	return -1
}

// SubnetLoadFailed reports whether the i-th modelled load of the phantom subnet
// file failed (engine only; natively false).
func SubnetLoadFailed(i int) bool { return false }

// DialReturns scripts the next net.Dial (engine only).
func DialReturns(c net.Conn, err error) {}

// Dialed returns the address of the last net.Dial (engine only).
func Dialed() string { return "" }

// LiveThreads: goroutines other than the caller that have not finished (engine; -1 natively).
func LiveThreads() int { return -1 }

// LogLeaks reports whether any line that reached a logging sink contains the
// needle (engine only; natively the harness inspects its own log writer).
func LogLeaks(needle string) bool { return false }

// PreemptOnlyAt restricts scheduling points at lock acquisitions to the given
// synchronisation objects (pointers to sync.Mutex / sync.RWMutex); explicit
// Yield calls, channel operations and blocking always remain scheduling points.
func PreemptOnlyAt(objs ...interface{}) {}

// FirstTouchReduction: no scheduling point before the first use of a
// synchronisation object by any thread (a heuristic reduction, listed as a bound).
func FirstTouchReduction() {}

// TimersFire: from here on timers fire in the model (discrete-event clock: time advances only
// when no thread can run, to the earliest pending deadline).  Natively a no-op: real timers.
func TimersFire() {}

// Quiesce lets every other goroutine run until it finishes or blocks, like Settle, but the
// order in which they get there IS explored (every interleaving at their scheduling points).
func Quiesce() { time.Sleep(50 * time.Millisecond) }

// UseModel: from here on calls of the named function or method (as printed by go/ssa, e.g.
// "github.com/pion/dtls/v2.ClientWithContext" or "(*github.com/pion/dtls/v2.Conn).ConnectionState")
// run fn instead - a model of a third-party engine written down by the harness from its
// documented callback protocol.  Only in the engine: natively a no-op (such harnesses replay in
// the engine).
func UseModel(name string, fn interface{}) {}

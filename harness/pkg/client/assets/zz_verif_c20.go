package assets

import (
	"path"

	"github.com/refraction-networking/conjure/internal/verifnd"
	pb "github.com/refraction-networking/conjure/proto"
	"google.golang.org/protobuf/proto"
)

// VerifC20AtomicStore: one to two (thorough tier: three) consecutive stores (whole ClientConf,
// generation, public key, decoy list, phantom subnets) against a file-system
// model in which the process can die before every micro-step (create, write,
// rename, remove, fsync ...) and every micro-step can fail.  At every crash
// point and after every call the ClientConf file is exactly the previous or the
// new configuration; a failed whole-config store leaves the previous object in
// memory.
// verif:replay=model
func VerifC20AtomicStore() {
	verifnd.Sequential()
	verifnd.FixRandom(7) // the random suffix only names the temporary file
	dir := "/verif-assets"
	target := path.Join(dir, "ClientConf")
	conf := &pb.ClientConf{Generation: proto.Uint32(1)}
	prev, _ := proto.Marshal(conf)
	verifnd.FSPut(target, prev)
	a := &assets{path: dir, config: conf, filenameClientConf: "ClientConf"}
	next := prev
	verifnd.OnCrash(func() {
		verifnd.Assert(verifnd.FSIs(target, prev) || verifnd.FSIs(target, next), "C20.crash-leaves-previous-or-new")
		verifnd.Reach("C20.crash-explored")
	})
	maxStores := 2
	if verifnd.Thorough() {
		maxStores = 3 // thorough: a third consecutive store (a failed or crashed store in the middle of a history)
	}
	stores := 1 + verifnd.Choose("stores", maxStores)
	for i := 0; i < stores; i++ {
		// prev = what is on disk: the last configuration that was stored successfully
		before := a.config
		var err error
		op := verifnd.Choose("op", 5)
		switch op {
		case 0: // whole configuration
			nc := &pb.ClientConf{Generation: proto.Uint32(uint32(10 + i))}
			next, _ = proto.Marshal(nc)
			err = a.SetClientConf(nc)
			if err != nil {
				verifnd.Assert(a.config == before, "C20.failed-replacement-keeps-previous-in-memory")
				verifnd.Reach("C20.rollback")
			} else {
				verifnd.Assert(a.config == nc, "C20.successful-replacement-in-memory")
			}
		case 1:
			c := proto.Clone(a.config).(*pb.ClientConf)
			g := uint32(20 + i)
			c.Generation = &g
			next, _ = proto.Marshal(c)
			err = a.SetGeneration(g)
		case 2:
			kt := pb.KeyType_AES_GCM_128
			k := &pb.PubKey{Key: []byte{byte(30 + i)}, Type: &kt}
			c := proto.Clone(a.config).(*pb.ClientConf)
			c.DefaultPubkey = k
			next, _ = proto.Marshal(c)
			err = a.SetPubkey(k)
		case 3:
			d := []*pb.TLSDecoySpec{{Hostname: proto.String("decoy.example")}}
			c := proto.Clone(a.config).(*pb.ClientConf)
			if c.DecoyList == nil {
				c.DecoyList = &pb.DecoyList{}
			}
			c.DecoyList.TlsDecoys = d
			next, _ = proto.Marshal(c)
			err = a.SetDecoys(d)
		case 4:
			w := uint32(1)
			sl := &pb.PhantomSubnetsList{WeightedSubnets: []*pb.PhantomSubnets{{Weight: &w, Subnets: []string{"192.0.2.0/24"}}}}
			c := proto.Clone(a.config).(*pb.ClientConf)
			c.PhantomSubnetsList = sl
			next, _ = proto.Marshal(c)
			err = a.SetPhantomSubnets(sl)
		}
		if err != nil {
			verifnd.Assert(verifnd.FSIs(target, prev) || verifnd.FSIs(target, next), "C20.failure-leaves-previous-or-new")
			if verifnd.FSIs(target, next) {
				prev = next
			}
			verifnd.Reach("C20.store-failed")
		} else {
			verifnd.Assert(verifnd.FSIs(target, next), "C20.success-stores-new")
			prev = next
			verifnd.Reach("C20.store-succeeded")
		}
	}
	verifnd.Reach("C20.done")
}

package transports

import (
	"strings"

	"github.com/refraction-networking/conjure/internal/verifnd"
	pb "github.com/refraction-networking/conjure/proto"
	"golang.org/x/crypto/curve25519"
	"google.golang.org/protobuf/types/known/anypb"
)

// VerifC15Obfuscators: every tag obfuscator variant (GCM, CTR, XOR, Nil), every
// station key pair (arbitrary private key, its public key), every tag of length
// 0, 1, 31, 32, 33 with arbitrary contents, every draw of the client's ephemeral
// key and padding bits: TryReveal(Obfuscate(tag)) is the tag, or Obfuscate
// reports an error (a value it cannot represent); a wrong-length station key is
// refused by the variants that use it.  ECDH / Elligator / AES / SHA-256 as
// uninterpreted functions with ECDH symmetry, representative -> public key and
// the cipher inverses instantiated.  The "fresh encoding every time" clause is
// probabilistic and not decided here.
// verif:shards=4
func VerifC15Obfuscators() {
	variant := verifnd.Choose("variant", 4) // sharded
	o := []Obfuscator{GCMObfuscator{}, CTRObfuscator{}, XORObfuscator{}, NilObfuscator{}}[variant]
	var priv [32]byte
	copy(priv[:], verifnd.Bytes("station-privkey", 32))
	pub, err := curve25519.X25519(priv[:], curve25519.Basepoint)
	if err != nil {
		return
	}
	if verifnd.Bool("wrong-length-station-key") {
		_, err := o.Obfuscate(verifnd.Bytes("tag", 32), pub[:31])
		verifnd.Assert(err != nil || variant >= 2, "C15.obfuscator.wrong-key-length-refused")
		verifnd.Reach("C15.obfuscator.wrong-key")
		return
	}
	n := []int{32, 0, 1, 31, 33}[verifnd.Choose("tag-len", 5)]
	tag := verifnd.Bytes("tag", n)
	c, err := o.Obfuscate(tag, pub)
	if err != nil {
		verifnd.Reach("C15.obfuscator.refused")
		return
	}
	p, err := o.TryReveal(c, priv)
	verifnd.Assert(err == nil, "C15.obfuscator.accepted-value-decodes")
	if err == nil {
		verifnd.Assert(len(p) == n && verifnd.BytesEq(p, tag), "C15.obfuscator.roundtrip")
	}
	verifnd.Reach("C15.obfuscator.done")
}

// VerifC15AnyPacking: the URL-less packing of transport parameters: a message
// packed into an Any whose type URL is kept, cleared (the space-saving form the
// DNS registrar needs), or spelled with the old "tapdance." package name decodes
// to the original message; a type URL of another message type is refused;
// decoding changes nothing but the destination.  (The protobuf wire format
// itself is the third-party runtime's: modelled as a snapshot.)
func VerifC15AnyPacking() {
	id := int32(verifnd.U32("prefix-id"))
	fl := int32(verifnd.U32("flush"))
	rnd := verifnd.Bool("randomize")
	m := &pb.PrefixTransportParams{PrefixId: &id, CustomFlushPolicy: &fl, RandomizeDstPort: &rnd, Prefix: verifnd.Bytes("prefix-bytes", 3)}
	a, err := anypb.New(m)
	if err != nil {
		return
	}
	form := verifnd.Choose("type-url", 4)
	switch form {
	case 1:
		a.TypeUrl = ""
	case 2:
		a.TypeUrl = strings.Replace(a.TypeUrl, "proto.", "tapdance.", 1)
	case 3:
		a.TypeUrl = "type.googleapis.com/proto.GenericTransportParams"
	}
	dst := &pb.PrefixTransportParams{}
	err = UnmarshalAnypbTo(a, dst)
	if form == 3 {
		verifnd.Assert(err != nil, "C15.any.foreign-type-url-refused")
		verifnd.Reach("C15.any.refused")
		return
	}
	verifnd.Assert(err == nil, "C15.any.decodes")
	if err == nil {
		verifnd.Assert(dst.GetPrefixId() == id && dst.GetCustomFlushPolicy() == fl && dst.GetRandomizeDstPort() == rnd &&
			dst.PrefixId != nil && dst.CustomFlushPolicy != nil && dst.RandomizeDstPort != nil && verifnd.BytesEq(dst.GetPrefix(), m.GetPrefix()), "C15.any.roundtrip")
	}
	var untouched pb.PrefixTransportParams
	verifnd.Assert(UnmarshalAnypbTo(nil, &untouched) == nil && untouched.PrefixId == nil, "C15.any.nil-source-is-a-no-op")
	verifnd.Reach("C15.any.done")
}

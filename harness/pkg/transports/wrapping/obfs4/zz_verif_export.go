package obfs4

// VerifClientIdentifier: the client transport's node public key || node id, in
// the form the station keys its registrations by.
func (t *ClientTransport) VerifClientIdentifier() string {
	return string(t.keys.PublicKey.Bytes()[:]) + string(t.keys.NodeID.Bytes()[:])
}

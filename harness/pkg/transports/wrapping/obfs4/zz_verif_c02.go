package obfs4

import (
	"bytes"
	"crypto/sha256"
	"errors"
	"io"
	"net"

	"github.com/refraction-networking/conjure/internal/verifnd"
	"github.com/refraction-networking/conjure/pkg/transports"
	pb "github.com/refraction-networking/conjure/proto"
	"github.com/refraction-networking/obfs4/common/ntor"
	"golang.org/x/crypto/hkdf"
)

type verifReg struct {
	secret  []byte
	phantom net.IP
	keys    interface{}
	rd      io.Reader
	other   bool // a registration of another transport (no obfs4 keys, its own key stream)
}

func verifNewReg(secret []byte, phantom net.IP) *verifReg {
	rd := hkdf.New(sha256.New, secret, []byte("conjureconjureconjureconjure"), nil)
	seed := make([]byte, 16)
	_, _ = io.ReadFull(rd, seed)
	return &verifReg{secret: secret, phantom: phantom, rd: rd}
}

func (r *verifReg) SharedSecret() []byte           { return r.secret }
func (r *verifReg) GetRegistrationAddress() string { return "" }
func (r *verifReg) GetDstPort() uint16             { return 443 }
func (r *verifReg) PhantomIP() *net.IP             { return &r.phantom }
func (r *verifReg) TransportType() pb.TransportType {
	if r.other {
		return pb.TransportType_Min
	}
	return pb.TransportType_Obfs4
}
func (r *verifReg) TransportParams() any                 { return nil }
func (r *verifReg) SetTransportKeys(k interface{}) error { r.keys = k; return nil }
func (r *verifReg) TransportKeys() interface{}           { return r.keys }
func (r *verifReg) TransportReader() io.Reader           { return r.rd }

type verifRM struct {
	byPhantom map[string]map[string]transports.Registration
}

func (m *verifRM) GetRegistrations(p net.IP) map[string]transports.Registration {
	return m.byPhantom[p.String()]
}

// where the station looks for the mark: the 32 bytes that end the buffer (or its
// first 8192 bytes)
func verifWindow(n int) int {
	e := n
	if e > MaxHandshakeLength {
		e = MaxHandshakeLength
	}
	return e - (MarkLength + MacLength)
}

var verifObfs4Lens = []int{0, 63, 64, 140, 141, 1000, 8191, 8192, 8193, 8300}

// VerifC02Obfs4Wrap: one WrapConnection of the obfs4 transport on arbitrary
// bytes of every threshold length (empty, around the minimum handshake, around
// the shortest padded handshake, at / one short of / beyond the maximum
// handshake length) against a registry with the registration under test,
// optionally a second obfs4 registration on the phantom, the same secret on
// another phantom, and a non-obfs4 entry; the connection goes to either
// phantom.  Soundness: a returned registration is on the connection's phantom
// and the mark window holds ITS mark for the representative sent.
// Completeness: if the window holds the mark of a registration on the
// connection's phantom (a client's genuine handshake of ANY permitted padding,
// 141..8192 bytes), that registration is found.  Otherwise: try-again below
// 8192 bytes, not-transport from 8192 on.  The third-party server handshake
// behind a match is stubbed - so a counterexample in which a registration IS matched cannot
// run natively past the match (the real handshake wants a real client): those replay in the engine.
// verif:replay=native-then-model
// verif:shards=10
func VerifC02Obfs4Wrap() {
	verifnd.Sequential()
	n := verifObfs4Lens[verifnd.Choose("len", len(verifObfs4Lens))] // sharded
	t := Transport{}
	p1, p2 := net.ParseIP("192.0.2.1").To4(), net.ParseIP("192.0.2.2").To4()
	rm := &verifRM{byPhantom: map[string]map[string]transports.Registration{}}
	add := func(r *verifReg) {
		k := r.phantom.String()
		if rm.byPhantom[k] == nil {
			rm.byPhantom[k] = map[string]transports.Registration{}
		}
		rm.byPhantom[k][t.GetIdentifier(r)] = r
	}
	r1 := verifNewReg(verifnd.Bytes("secret1", 32), p1)
	add(r1)
	var otherSecret []byte
	if verifnd.Bool("second-registration") {
		add(verifNewReg(verifnd.Bytes("secret2", 32), p1))
	}
	if verifnd.Bool("same-secret-on-other-phantom") {
		add(verifNewReg(r1.secret, p2))
	}
	if verifnd.Bool("other-transport-on-phantom") {
		// a validated registration of another transport on the same phantom, as the station
		// stores it: under that transport's identifier, without obfs4 keys, with the key stream
		// every registration carries (its secret: r1's or another one)
		ms := r1.secret
		if verifnd.Bool("other-transport-has-its-own-secret") {
			ms = verifnd.Bytes("secret-min", 32)
		}
		m := verifNewReg(ms, p1)
		m.other = true
		otherSecret = ms
		rm.byPhantom[p1.String()][string(verifnd.Bytes("min-identifier", 32))] = m
	}
	dst := p1
	if verifnd.Bool("connection-to-other-phantom") {
		dst = p2
	}
	buf := verifnd.Bytes("first-bytes", n)
	var rep ntor.Representative
	copy(rep[:], buf)
	k1 := r1.keys.(Obfs4Keys)
	mark1 := generateMark(k1.NodeID, k1.PublicKey, &rep)
	genuine := false
	if n >= ClientMinHandshakeLength {
		w := verifWindow(n)
		genuine = verifnd.Bool("window-holds-the-registration's-mark")
		if genuine {
			if verifnd.Symbolic() {
				verifnd.Assume(verifnd.BytesEq(buf[w:w+MarkLength], mark1))
			} else {
				copy(buf[w:], mark1) // native replay: the genuine mark (same input class)
			}
		}
	}
	if otherSecret != nil && !genuine && n >= ClientMinHandshakeLength && verifnd.Bool("window-holds-the-mark-that-the-other-transport's-secret-would-give") {
		// a genuine obfs4 flight of a client whose secret is registered for ANOTHER transport only
		twin := verifNewReg(otherSecret, p1)
		if ck, err := generateObfs4Keys(twin.rd); err == nil {
			w := verifWindow(n)
			cm := generateMark(ck.NodeID, ck.PublicKey, &rep)
			if verifnd.Symbolic() {
				verifnd.Assume(verifnd.BytesEq(buf[w:w+MarkLength], cm))
			} else {
				copy(buf[w:], cm)
			}
		}
	}
	data := bytes.NewBuffer(append([]byte{}, buf...))
	reg, _, err := t.WrapConnection(data, nil, dst, rm)
	found := reg != nil
	if found {
		got, ok := reg.(*verifReg)
		verifnd.Assert(ok && got != nil && got.phantom.Equal(dst), "C02.obfs4.registration-is-on-the-connection's-phantom")
		verifnd.Assert(ok && got != nil && !got.other, "C02.obfs4.registration-is-an-obfs4-registration")
		if ok && got != nil && n >= ClientMinHandshakeLength {
			gk, isK := got.keys.(Obfs4Keys)
			verifnd.Assert(isK, "C02.obfs4.registration-has-obfs4-keys")
			if isK {
				w := verifWindow(n)
				verifnd.Assert(verifnd.BytesEq(buf[w:w+MarkLength], generateMark(gk.NodeID, gk.PublicKey, &rep)), "C02.obfs4.window-holds-the-registration's-mark")
			}
		}
		verifnd.Reach("C02.obfs4.accepted")
	} else {
		verifnd.Assert(errors.Is(err, transports.ErrTryAgain) || errors.Is(err, transports.ErrNotTransport), "C02.obfs4.rejection-is-a-documented-answer")
		verifnd.Assert(errors.Is(err, transports.ErrTryAgain) == (n < MaxHandshakeLength), "C02.obfs4.try-again-iff-more-could-come")
		verifnd.Assert(data.Len() == n, "C02.obfs4.rejection-leaves-buffer-untouched")
		verifnd.Reach("C02.obfs4.rejected")
	}
	// completeness (C04's clause for this transport): a genuine handshake of any permitted length is found
	if genuine && dst.Equal(p1) && n >= ntor.RepresentativeLength+ClientMinPadLength+MarkLength+MacLength {
		verifnd.Assert(found, "C02.obfs4.genuine-handshake-is-found")
		verifnd.Reach("C02.obfs4.genuine")
	}
}

// VerifC04Obfs4Lengths: the completeness half of VerifC02Obfs4Wrap under C04 (a
// registered client's obfs4 first flight of every permitted padding length is
// recognised).
// verif:replay=native-then-model
// verif:shards=10
func VerifC04Obfs4Lengths() { VerifC02Obfs4Wrap() }

// VerifC11Obfs4Wrap: arbitrary first-flight bytes never crash the obfs4
// transport (the same exploration, implicit obligations only).
// verif:shards=10
func VerifC11Obfs4Wrap() {
	verifnd.PanicsOnly()
	VerifC02Obfs4Wrap()
}

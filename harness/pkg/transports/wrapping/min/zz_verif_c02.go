package min

import (
	"bytes"
	"errors"
	"io"
	"net"

	"github.com/refraction-networking/conjure/internal/verifnd"
	"github.com/refraction-networking/conjure/pkg/transports"
	pb "github.com/refraction-networking/conjure/proto"
)

type verifReg struct {
	secret  []byte
	phantom net.IP
}

func (r *verifReg) SharedSecret() []byte               { return r.secret }
func (r *verifReg) GetRegistrationAddress() string     { return "" }
func (r *verifReg) GetDstPort() uint16                 { return 443 }
func (r *verifReg) PhantomIP() *net.IP                 { return &r.phantom }
func (r *verifReg) TransportType() pb.TransportType    { return pb.TransportType_Min }
func (r *verifReg) TransportParams() any               { return nil }
func (r *verifReg) SetTransportKeys(interface{}) error { return nil }
func (r *verifReg) TransportKeys() interface{}         { return nil }
func (r *verifReg) TransportReader() io.Reader         { return nil }

type verifRM struct {
	byPhantom map[string]map[string]transports.Registration
}

func (m *verifRM) GetRegistrations(p net.IP) map[string]transports.Registration {
	return m.byPhantom[p.String()]
}

// VerifC02MinWrap: the min transport returns a registration only if the first
// 32 bytes are that registration's identifier and it is stored under the
// connection's phantom; it consumes exactly the tag; otherwise try-again
// (short) or not-transport with the buffer untouched.
func VerifC02MinWrap() {
	verifnd.Sequential()
	n := []int{0, 1, 31, 32, 33, 64}[verifnd.Choose("len", 6)]
	t := Transport{}
	p1, p2 := net.ParseIP("192.0.2.1").To4(), net.ParseIP("192.0.2.2").To4()
	rm := &verifRM{byPhantom: map[string]map[string]transports.Registration{}}
	add := func(r *verifReg) {
		k := r.phantom.String()
		if rm.byPhantom[k] == nil {
			rm.byPhantom[k] = map[string]transports.Registration{}
		}
		rm.byPhantom[k][t.GetIdentifier(r)] = r
	}
	r1 := &verifReg{secret: verifnd.Bytes("secret1", 32), phantom: p1}
	add(r1)
	if verifnd.Bool("second-registration") {
		add(&verifReg{secret: verifnd.Bytes("secret2", 32), phantom: p1})
	}
	if verifnd.Bool("same-secret-on-other-phantom") {
		add(&verifReg{secret: r1.secret, phantom: p2})
	}
	dst := p1
	if verifnd.Bool("connection-to-other-phantom") {
		dst = p2
	}
	buf := verifnd.Bytes("first-bytes", n)
	if !verifnd.Symbolic() && n >= 32 {
		copy(buf, t.GetIdentifier(r1)) // native replay: the genuine tag of r1 (same input class)
	}
	data := bytes.NewBuffer(append([]byte{}, buf...))
	reg, _, err := t.WrapConnection(data, nil, dst, rm)
	if err != nil {
		verifnd.Assert(reg == nil && (errors.Is(err, transports.ErrTryAgain) || errors.Is(err, transports.ErrNotTransport)), "C02.min.rejection-is-a-documented-answer")
		verifnd.Assert(errors.Is(err, transports.ErrTryAgain) == (n < 32), "C02.min.try-again-iff-short")
		verifnd.Assert(data.Len() == n, "C02.min.rejection-leaves-buffer-untouched")
		verifnd.Reach("C02.min.rejected")
		return
	}
	got, ok := reg.(*verifReg)
	verifnd.Assert(ok && got != nil && got.phantom.Equal(dst), "C02.min.registration-is-on-the-connection's-phantom")
	if ok && got != nil {
		verifnd.Assert(string(buf[:32]) == t.GetIdentifier(got), "C02.min.tag-is-the-registration's-identifier")
		verifnd.Assert(data.Len() == n-32, "C02.min.consumes-exactly-the-tag")
	}
	verifnd.Reach("C02.min.accepted")
}

// VerifC11MinWrap: arbitrary first-flight bytes never crash the min transport
// (VerifC02MinWrap's exploration, implicit obligations only).
func VerifC11MinWrap() {
	verifnd.PanicsOnly()
	VerifC02MinWrap()
}

package prefix

import (
	"bytes"
	"errors"
	"io"
	"net"

	"github.com/refraction-networking/conjure/internal/verifnd"
	"github.com/refraction-networking/conjure/pkg/transports"
	pb "github.com/refraction-networking/conjure/proto"
	"golang.org/x/crypto/curve25519"
)

type verifReg struct {
	secret  []byte
	tt      pb.TransportType
	params  any
	phantom net.IP
}

func (r *verifReg) SharedSecret() []byte               { return r.secret }
func (r *verifReg) GetRegistrationAddress() string     { return "" }
func (r *verifReg) GetDstPort() uint16                 { return 443 }
func (r *verifReg) PhantomIP() *net.IP                 { return &r.phantom }
func (r *verifReg) TransportType() pb.TransportType    { return r.tt }
func (r *verifReg) TransportParams() any               { return r.params }
func (r *verifReg) SetTransportKeys(interface{}) error { return nil }
func (r *verifReg) TransportKeys() interface{}         { return nil }
func (r *verifReg) TransportReader() io.Reader         { return nil }

// verifRM: any registry state that satisfies the representation invariant the
// station's registry maintains (an entry is stored under its own phantom and
// its own transport's identifier); only validated entries are visible (that
// filter is C08's subject).
type verifRM struct {
	byPhantom map[string]map[string]transports.Registration
}

func (m *verifRM) GetRegistrations(p net.IP) map[string]transports.Registration {
	return m.byPhantom[p.String()]
}

func (m *verifRM) add(t Transport, r *verifReg) {
	k := r.phantom.String()
	if m.byPhantom[k] == nil {
		m.byPhantom[k] = map[string]transports.Registration{}
	}
	id := t.GetIdentifier(r)
	if r.tt != pb.TransportType_Prefix {
		id = "other-transport:" + string(r.secret) // stored under some other transport's identifier
	}
	m.byPhantom[k][id] = r
}

var verifLens = []int{0, 1, 63, 64, 65, 68, 69, 70, 79, 80, 81, 84, 85, 100}

// VerifC02PrefixWrap: one WrapConnection of the prefix transport on an
// arbitrary buffer against an arbitrary well-formed registry: a registration is
// returned only if it is stored under the connection's phantom, is a Prefix
// registration, and the bytes at ITS registered prefix's tag position reveal to
// ITS identifier behind that prefix's static bytes; otherwise the answer is
// try-again / not-transport / wrong prefix or transport and the buffer is
// untouched.
// verif:shards=14
func VerifC02PrefixWrap() {
	verifnd.Sequential()
	n := verifLens[verifnd.Choose("len", len(verifLens))] // sharded
	var priv [32]byte
	copy(priv[:], verifnd.Bytes("station-privkey", 32))
	tp, err := Default([][32]byte{priv})
	if err != nil {
		panic(err)
	}
	t := *tp
	p1, p2 := net.ParseIP("192.0.2.1").To4(), net.ParseIP("192.0.2.2").To4()
	rm := &verifRM{byPhantom: map[string]map[string]transports.Registration{}}
	// the registration under test, on the connection's phantom
	r1 := &verifReg{secret: verifnd.Bytes("secret1", 32), tt: pb.TransportType_Prefix, phantom: p1}
	regPrefix := int32(-1)
	switch verifnd.Choose("params", 5) {
	case 0:
		regPrefix = int32(Min)
	case 1:
		regPrefix = int32(GetLong)
	case 2:
		regPrefix = int32(TLSAlertWarning)
	case 3: // no parameters at all (nil interface)
	case 4: // typed nil
		r1.params = (*pb.PrefixTransportParams)(nil)
	}
	if regPrefix >= 0 {
		r1.params = &pb.PrefixTransportParams{PrefixId: &regPrefix}
	}
	verifnd.Finding("C02-F1", r1.params == nil)
	rm.add(t, r1)
	// near misses: the same secret registered on another phantom; another transport's registration here
	if verifnd.Bool("same-secret-on-other-phantom") {
		rm.add(t, &verifReg{secret: r1.secret, tt: pb.TransportType_Prefix, phantom: p2, params: r1.params})
	}
	if verifnd.Bool("other-transport-here") {
		rm.add(t, &verifReg{secret: verifnd.Bytes("secret2", 32), tt: pb.TransportType_Min, phantom: p1})
	}
	conn := verifnd.Choose("connection-phantom", 2)
	dst := p1
	if conn == 1 {
		dst = p2
	}
	buf := verifnd.Bytes("first-bytes", n)
	if !verifnd.Symbolic() {
		// native replay: the solver's bytes are consistent with the cryptographic model, not
		// with real AES/X25519 outputs; build the member of the same input class with the real
		// obfuscator: a genuine tag of r1 behind a supported prefix of this length (preferring
		// one that is NOT r1's registered prefix)
		var pub [32]byte
		curve25519.ScalarBaseMult(&pub, &priv)
		for pass := 0; pass < 2; pass++ {
			for id, pf := range t.SupportedPrefixes {
				if pf.Offset+minTagLength != n || (pass == 0 && int32(id) == regPrefix) {
					continue
				}
				tag, err := t.TagObfuscator.Obfuscate([]byte(t.GetIdentifier(r1)), pub[:])
				if err == nil {
					buf = append(append([]byte{}, pf.StaticMatch...), tag...)
					pass = 2
					break
				}
			}
		}
	}
	data := bytes.NewBuffer(append([]byte{}, buf...))
	reg, wrapped, werr := t.WrapConnection(data, nil, dst, rm)
	if werr != nil {
		verifnd.Assert(reg == nil, "C02.prefix.no-registration-with-error")
		verifnd.Assert(errors.Is(werr, transports.ErrTryAgain) || errors.Is(werr, transports.ErrNotTransport) ||
			errors.Is(werr, ErrIncorrectPrefix) || errors.Is(werr, ErrIncorrectTransport), "C02.prefix.rejection-is-a-documented-answer")
		verifnd.Assert(data.Len() == n, "C02.prefix.rejection-leaves-buffer-untouched")
		verifnd.Reach("C02.prefix.rejected")
		return
	}
	_ = wrapped
	got, ok := reg.(*verifReg)
	verifnd.Assert(ok && got != nil, "C02.prefix.returns-a-registry-entry")
	if !ok || got == nil {
		return
	}
	// (b) stored under the connection's phantom
	verifnd.Assert(got.phantom.Equal(dst), "C02.prefix.registration-is-on-the-connection's-phantom")
	// (c) a Prefix registration whose own registered prefix matched, with its own tag
	verifnd.Assert(got.tt == pb.TransportType_Prefix, "C02.prefix.registration-is-a-prefix-registration")
	pp, _ := got.params.(*pb.PrefixTransportParams)
	verifnd.Assert(pp != nil, "C02.prefix.registration-without-parameters-never-matches")
	if pp == nil {
		return
	}
	pf, known := t.SupportedPrefixes[PrefixID(pp.GetPrefixId())]
	verifnd.Assert(known, "C02.prefix.registered-prefix-is-supported")
	if !known {
		return
	}
	verifnd.Assert(n >= pf.Offset+minTagLength && verifnd.BytesEq(buf[:len(pf.StaticMatch)], pf.StaticMatch), "C02.prefix.static-bytes-of-the-registered-prefix-present")
	if n >= pf.Offset+minTagLength {
		revealed, rerr := t.TagObfuscator.TryReveal(buf[pf.Offset:pf.Offset+minTagLength], priv)
		verifnd.Assert(rerr == nil && string(revealed) == t.GetIdentifier(got), "C02.prefix.tag-at-the-registered-prefix-reveals-its-identifier")
		verifnd.Assert(data.Len() == n-pf.Offset-minTagLength, "C02.prefix.consumes-exactly-prefix-and-tag")
	}
	verifnd.Reach("C02.prefix.accepted")
}

// VerifC11PrefixWrap: "first-flight bytes arriving on phantom connections"
// never crash or hang the station: the exploration of VerifC02PrefixWrap
// (arbitrary bytes of every threshold length against every registry shape incl.
// absent and typed-nil parameters) with only the implicit obligations checked.
// verif:shards=14
func VerifC11PrefixWrap() {
	verifnd.PanicsOnly()
	VerifC02PrefixWrap()
}

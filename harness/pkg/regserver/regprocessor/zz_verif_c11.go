package regprocessor

import (
	"net"
	"time"

	"github.com/refraction-networking/conjure/internal/verifnd"
	"github.com/refraction-networking/conjure/pkg/core/interfaces"
	"github.com/refraction-networking/conjure/pkg/metrics"
	"github.com/refraction-networking/conjure/pkg/phantoms"
	"github.com/refraction-networking/conjure/pkg/regserver/overrides"
	"github.com/refraction-networking/conjure/pkg/transports/wrapping/min"
	"github.com/refraction-networking/conjure/pkg/transports/wrapping/obfs4"
	"github.com/refraction-networking/conjure/pkg/transports/wrapping/prefix"
	pb "github.com/refraction-networking/conjure/proto"
	"github.com/sirupsen/logrus"
	"google.golang.org/protobuf/proto"
	"google.golang.org/protobuf/types/known/anypb"
)

// a selector that answers like the real one can: an address of the family, an
// error, or (v4 request) an address that is not IPv4
type verifHavocSel struct{ mode int }

func (s verifHavocSel) Select(seed []byte, gen uint, libver uint, v6 bool) (*phantoms.PhantomIP, error) {
	switch s.mode {
	case 1:
		return nil, phantoms.ErrLegacyAddrSelectBug
	case 2:
		return nil, phantoms.ErrMissingAddrs
	}
	if v6 {
		return phantoms.IP(net.ParseIP("2001:db8::7"), true), nil
	}
	return phantoms.IP(net.ParseIP("192.0.2.7").To4(), true), nil
}

func verifHavocParams(kind int) *anypb.Any {
	var a *anypb.Any
	switch kind {
	case 1:
		rnd := verifnd.Bool("params.randomize")
		a, _ = anypb.New(&pb.GenericTransportParams{RandomizeDstPort: &rnd})
	case 2:
		id := int32(verifnd.U32("params.prefix-id"))
		rnd := verifnd.Bool("params.randomize")
		a, _ = anypb.New(&pb.PrefixTransportParams{PrefixId: &id, RandomizeDstPort: &rnd})
	case 3:
		a, _ = anypb.New(&pb.PrefixTransportParams{})
	case 4:
		a = &anypb.Any{TypeUrl: "type.googleapis.com/tapdance.Nope"}
	}
	return a
}

var verifRegHavocDims = []int{5, 5, 5, 4, 3, 4, 2, 3, 3, 2, 2}

// VerifC11RegistrarHavoc: the registrar's two entry points (reached by the HTTP
// and the DNS front ends) on structurally valid requests with arbitrary field
// values: secrets of wrong lengths, absent payload, unknown / unregistered
// transports, parameters of (mis)matching types with arbitrary numeric fields,
// family flags in every combination, unknown generations, forged response
// fields, client address absent / of wrong length; registrar with and without
// signing key, with parameter overrides, with a phantom selector that fails.
// Every combination of deviations in at most two (thorough: three) dimensions
// from a well-formed request.  Obligation: returns (no panic, no stall).
// verif:shards=16
func VerifC11RegistrarHavoc() {
	verifnd.Sequential()
	nd := len(verifRegHavocDims)
	var pairs [][2]int
	for i := 0; i <= nd; i++ {
		for j := i + 1; j <= nd; j++ {
			pairs = append(pairs, [2]int{i, j})
		}
	}
	pairs = append(pairs, [2]int{nd, nd})
	pr := pairs[verifnd.Choose("deviating-dimensions", len(pairs))] // sharded
	dims := []int{pr[0], pr[1]}
	if verifnd.Thorough() && pr[1] < 4 {
		// thorough: a third deviating dimension for the pairs within the first four dimensions
		// (secret, transport, parameters, library version / families); every triple did not
		// finish within the 40-minute budget per shard
		dims = append(dims, pr[1]+1+verifnd.Choose("third-dimension", nd-pr[1]))
	}
	vals := make([]int, nd)
	for _, i := range dims {
		if i < nd {
			vals[i] = 1 + verifnd.Choose("value", verifRegHavocDims[i]-1)
		}
	}
	verifnd.LoopBound("crypto/rand.Int", 2)

	// ---- registrar
	sock := &verifSock{}
	subnets := []Subnet{
		{CIDR: verifCIDR("10.10.0.0/16"), Weight: 1, Transport: "Min_Transport"},
		{CIDR: verifCIDR("10.50.0.0/16"), Weight: 2, Port: 80, Transport: "Prefix_Transport", PrefixId: prefix.GetLong},
	}
	var p *RegProcessor
	var err error
	if vals[9] == 1 {
		p, err = newRegProcessor("127.0.0.1", 0, make([]byte, 64), false, nil, true, subnets, nil, 50, 50)
	} else {
		p, err = newRegProcessor("127.0.0.1", 0, make([]byte, 64), true, nil, true, subnets, nil, 50, 50)
	}
	if err != nil || p == nil {
		return
	}
	if p.sock != nil {
		p.sock.Close()
	}
	p.sock = sock
	p.ipSelector = verifHavocSel{mode: vals[7]}
	p.metrics = metrics.NewMetrics(logrus.New(), 24*time.Hour)
	p.regOverrides = nil
	pt, err := prefix.Default([][32]byte{{}})
	if err != nil {
		panic(err)
	}
	_ = p.AddTransport(pb.TransportType_Min, min.Transport{})
	_ = p.AddTransport(pb.TransportType_Prefix, pt)
	_ = p.AddTransport(pb.TransportType_Obfs4, obfs4.Transport{})
	if vals[10] == 1 {
		fixed, err := prefix.TryFromID(prefix.PostLong)
		if err != nil {
			panic(err)
		}
		p.regOverrides = interfaces.Overrides{overrides.NewFixedPrefixOverride(fixed)}
	}

	// ---- request
	req := &pb.C2SWrapper{}
	req.SharedSecret = verifnd.Bytes("secret", []int{32, 0, 1, 31, 33}[vals[0]])
	tt := []pb.TransportType{pb.TransportType_Min, pb.TransportType_Prefix, pb.TransportType_Obfs4, pb.TransportType_DTLS, pb.TransportType(77)}[vals[1]]
	c2s := &pb.ClientToStation{Transport: &tt, CovertAddress: proto.String("192.0.2.99:443")}
	c2s.TransportParams = verifHavocParams(vals[2])
	switch vals[3] {
	case 0:
		c2s.V4Support, c2s.V6Support = proto.Bool(true), proto.Bool(true)
	case 1:
		c2s.V4Support = proto.Bool(true)
	case 2:
		c2s.V6Support = proto.Bool(true)
	}
	switch vals[4] {
	case 0:
		c2s.DecoyListGeneration = proto.Uint32(1)
	case 1:
		c2s.DecoyListGeneration = proto.Uint32(7)
	}
	if vals[5] != 3 {
		c2s.ClientLibVersion = proto.Uint32([]uint32{4, 0, 2}[vals[5]])
	}
	if vals[6] == 0 {
		req.RegistrationPayload = c2s
	}
	switch vals[8] {
	case 1:
		req.RegistrationResponse = &pb.RegistrationResponse{Ipv4Addr: proto.Uint32(verifnd.U32("forged-ip")), DstPort: proto.Uint32(verifnd.U32("forged-port")), TransportParams: verifHavocParams(2)}
	case 2:
		req.RegRespBytes, req.RegRespSignature = verifnd.Bytes("forged-bytes", 3), verifnd.Bytes("forged-sig", 5)
	}
	disable := verifnd.Bool("client-disables-overrides")
	c2s.DisableRegistrarOverrides = &disable
	clientAddr := [][]byte{net.ParseIP("203.0.113.5").To16(), nil, {1, 2, 3}, net.ParseIP("203.0.113.5").To4()}[verifnd.Choose("client-addr", 4)]
	src := []pb.RegistrationSource{pb.RegistrationSource_BidirectionalAPI, pb.RegistrationSource_API, pb.RegistrationSource_DNS, pb.RegistrationSource(9)}[verifnd.Choose("source", 4)]
	if verifnd.Bool("bidirectional") {
		resp, err := p.RegisterBidirectional(req, src, clientAddr)
		verifnd.Assert((resp == nil) == (err != nil), "C11.registrar.response-or-error")
	} else {
		_ = p.RegisterUnidirectional(req, src, clientAddr)
	}
	verifnd.Reach("C11.registrar.done")
}

// VerifNewScriptedProcessor: a registrar whose socket and phantom selector are
// scripted (for the front-end harnesses in other packages).
func VerifNewScriptedProcessor(selMode int) *RegProcessor {
	p, err := newRegProcessor("127.0.0.1", 0, make([]byte, 64), true, nil, true, nil, nil, 0, 0)
	if err != nil || p == nil {
		return nil
	}
	if p.sock != nil {
		p.sock.Close()
	}
	p.sock = &verifSock{}
	p.ipSelector = verifHavocSel{mode: selMode}
	p.metrics = metrics.NewMetrics(logrus.New(), 24*time.Hour)
	p.regOverrides = nil
	_ = p.AddTransport(pb.TransportType_Min, min.Transport{})
	return p
}

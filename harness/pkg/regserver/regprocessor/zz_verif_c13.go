package regprocessor

import (
	"errors"
	"net"
	"os"
	"sync"
	"sync/atomic"
	"time"

	"github.com/refraction-networking/conjure/internal/verifnd"
	"github.com/refraction-networking/conjure/pkg/phantoms"
	"github.com/refraction-networking/conjure/pkg/station/lib"
	"github.com/refraction-networking/conjure/pkg/transports"
	pb "github.com/refraction-networking/conjure/proto"
	"google.golang.org/protobuf/proto"
	"google.golang.org/protobuf/types/known/anypb"
)

// verifT: stand-in transport (parameters and ports are C01/C12's subject).
type verifT struct{}

func (verifT) Name() string                                   { return "verif" }
func (verifT) LogPrefix() string                              { return "verif" }
func (verifT) GetIdentifier(r transports.Registration) string { return "id" }
func (verifT) GetProto() pb.IPProto                           { return pb.IPProto_Tcp }
func (verifT) GetDstPort(libVersion uint, seed []byte, parameters any) (uint16, error) {
	return 443, nil
}
func (verifT) ParseParams(libVersion uint, data *anypb.Any) (any, error) { return nil, nil }
func (verifT) ParamStrings(p any) []string                               { return nil }

// verifSel is the scripted selector in force before any reload.  Select is a
// scheduling point: exactly the window between a request's two selections.
// Requests are told apart by the generation number they ask for.
type verifSel struct {
	p      *RegProcessor
	calls  [4]int32      // request id (generation - 10) -> selections served by this (old) selector
	failed [4]int32      // the old selector refused that request (e.g. unknown generation)
	kick   chan struct{} // native replay: lets the reload start at the first selection
	once   sync.Once
}

func (s *verifSel) Select(seed []byte, gen uint, libver uint, v6 bool) (*phantoms.PhantomIP, error) {
	atomic.AddInt32(&s.calls[gen-10], 1)
	verifnd.Yield()
	if !verifnd.Symbolic() {
		// native replay: force the worst interleaving - wait until a writer is parked
		s.once.Do(func() { close(s.kick) })
		for i := 0; i < 200; i++ {
			if !s.p.selectorMutex.TryRLock() {
				break
			}
			s.p.selectorMutex.RUnlock()
			time.Sleep(time.Millisecond)
		}
	}
	if verifnd.Bool("selection-fails") {
		atomic.StoreInt32(&s.failed[gen-10], 1)
		return nil, errors.New("generation number not recognized")
	}
	if v6 {
		return phantoms.IP(net.ParseIP("2001:db8::1"), true), nil
	}
	return phantoms.IP(net.ParseIP("192.0.2.1").To4(), true), nil
}

func verifRequest(kind int, id uint32) *pb.C2SWrapper {
	v4, v6 := kind != 1, kind != 0
	return &pb.C2SWrapper{
		SharedSecret: make([]byte, 32),
		RegistrationPayload: &pb.ClientToStation{
			V4Support:           proto.Bool(v4),
			V6Support:           proto.Bool(v6),
			DecoyListGeneration: proto.Uint32(id),
			ClientLibVersion:    proto.Uint32(4),
			Transport:           pb.TransportType_Min.Enum(),
		},
	}
}

// VerifC13ReloadVsRequests: one or two bidirectional requests (v4 only / v6
// only / dual stack) against subnet reloads, every interleaving at lock
// operations and at the selections.  Nothing may stall; each request uses one
// selector in full.
// verif:shards=12
func VerifC13ReloadVsRequests() {
	os.Setenv("PHANTOM_SUBNET_LOCATION", "../../phantoms/test/phantom_subnets.toml")
	c := verifnd.Choose("case", 12) // sharded: kind of the first request x (none | kind of a second request)
	kinds := []int{c % 3}
	if c/3 > 0 {
		kinds = append(kinds, c/3-1)
	}
	if len(kinds) == 2 && !(kinds[0] == 0 && kinds[1] == 1) && !verifnd.Thorough() {
		return // bound (quick): one request of each kind, and the pair (v4-only, v6-only); all pairs in the thorough tier
	}
	reloads := 1
	if verifnd.Thorough() && len(kinds) == 1 {
		reloads = 2
	}
	dual := false
	for _, k := range kinds {
		dual = dual || k == 2
	}
	verifnd.Finding("C13-F1", dual)

	p := &RegProcessor{transports: map[pb.TransportType]lib.Transport{pb.TransportType_Min: verifT{}}}
	sel := &verifSel{p: p, kick: make(chan struct{})}
	p.ipSelector = sel
	var wg sync.WaitGroup
	errs := make([]error, len(kinds))
	for i, k := range kinds {
		i, k := i, k
		wg.Add(1)
		go func() {
			defer wg.Done()
			_, errs[i] = p.processBdReq(verifRequest(k, uint32(10+i)))
		}()
	}
	for r := 0; r < reloads; r++ {
		wg.Add(1)
		go func() {
			defer wg.Done()
			if !verifnd.Symbolic() {
				select {
				case <-sel.kick:
				case <-time.After(time.Second):
				}
			}
			_ = p.ReloadSubnets()
		}()
	}
	wg.Wait()
	for i, k := range kinds {
		served := int(atomic.LoadInt32(&sel.calls[i]))
		want := 1
		if k == 2 {
			want = 2
		}
		// a request that succeeded ran entirely on the old selector; one that failed (the
		// reloaded selector knows no generation) must not have taken any selection from the
		// old one - otherwise it mixed two subnet sets
		if atomic.LoadInt32(&sel.failed[i]) == 1 {
			verifnd.Assert(errs[i] != nil, "C13.failed-selection-fails-request")
		} else if errs[i] == nil {
			verifnd.Assert(served == want, "C13.request-uses-one-subnet-set")
		} else {
			verifnd.Assert(served == 0, "C13.request-uses-one-subnet-set")
		}
	}
	verifnd.Reach("C13.all-complete")
}

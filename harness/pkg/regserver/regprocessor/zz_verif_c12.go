package regprocessor

import (
	"encoding/binary"
	"net"
	"os"
	"time"

	zmq "github.com/pebbe/zmq4"
	"github.com/refraction-networking/conjure/internal/verifnd"
	"github.com/refraction-networking/conjure/pkg/core/interfaces"
	"github.com/refraction-networking/conjure/pkg/metrics"
	"github.com/refraction-networking/conjure/pkg/phantoms"
	"github.com/refraction-networking/conjure/pkg/regserver/overrides"
	"github.com/refraction-networking/conjure/pkg/station/lib"
	"github.com/refraction-networking/conjure/pkg/transports"
	"github.com/refraction-networking/conjure/pkg/transports/wrapping/min"
	"github.com/refraction-networking/conjure/pkg/transports/wrapping/prefix"
	pb "github.com/refraction-networking/conjure/proto"
	"github.com/sirupsen/logrus"
	"google.golang.org/protobuf/proto"
	"google.golang.org/protobuf/types/known/anypb"
)

type verifSock struct{ sent [][]byte }

func (s *verifSock) SendBytes(b []byte, f zmq.Flag) (int, error) {
	s.sent = append(s.sent, b)
	return len(b), nil
}
func (s *verifSock) Close() error { return nil }

// verifFixedSel: the phantom selection itself is C14's subject; here it yields
// an address that is inside / outside the exclusion list, with a symbolic
// port-randomisation flag.
type verifFixedSel struct {
	v4   net.IP
	rand bool
}

func (s verifFixedSel) Select(seed []byte, gen uint, libver uint, v6 bool) (*phantoms.PhantomIP, error) {
	if v6 {
		return phantoms.IP(net.ParseIP("2001:db8::7"), s.rand), nil
	}
	return phantoms.IP(s.v4, s.rand), nil
}

func verifCIDR(s string) Ipnet {
	_, n, err := net.ParseCIDR(s)
	if err != nil {
		panic(err)
	}
	return Ipnet{n}
}

func verifPrefixParams(resp *pb.RegistrationResponse) (*pb.PrefixTransportParams, bool) {
	if resp.GetTransportParams() == nil {
		return nil, false
	}
	m := &pb.PrefixTransportParams{}
	if err := transports.UnmarshalAnypbTo(resp.GetTransportParams(), m); err != nil {
		return nil, false
	}
	return m, true
}

func verifSameResponse(a, b *pb.RegistrationResponse) bool {
	if (a == nil) != (b == nil) {
		return false
	}
	if a == nil {
		return true
	}
	ok := (a.Ipv4Addr == nil) == (b.Ipv4Addr == nil) && a.GetIpv4Addr() == b.GetIpv4Addr()
	ok = ok && verifnd.BytesEq(a.GetIpv6Addr(), b.GetIpv6Addr())
	ok = ok && (a.DstPort == nil) == (b.DstPort == nil) && a.GetDstPort() == b.GetDstPort()
	pa, oka := verifPrefixParams(a)
	pbb, okb := verifPrefixParams(b)
	ok = ok && oka == okb
	if oka && okb {
		ok = ok && pa.GetPrefixId() == pbb.GetPrefixId() && pa.GetRandomizeDstPort() == pbb.GetRandomizeDstPort() &&
			verifnd.BytesEq(pa.GetPrefix(), pbb.GetPrefix())
	}
	return ok
}

// VerifC12Bidirectional: what RegisterBidirectional returns to the client is
// what it forwards to the stations, and what a station builds from the forwarded
// message; forged response fields are discarded; overrides respect the client's
// flag, the configured subnets and the exclusions.
// verif:shards=8
func VerifC12Bidirectional() {
	verifnd.Sequential()
	c := verifnd.Choose("case", 8) // sharded: transport x excluded-phantom x authenticated
	isPrefix := c%2 == 1
	excluded := (c/2)%2 == 1
	auth := c/4 == 1

	sock := &verifSock{}
	sel := verifFixedSel{v4: net.ParseIP("9.9.9.9").To4(), rand: verifnd.Bool("subnet-randomizes-port")}
	if excluded {
		sel.v4 = net.ParseIP("8.8.8.8").To4()
	}
	pt, err := prefix.Default([][32]byte{{}})
	if err != nil {
		panic(err)
	}
	subnets := []Subnet{
		// weights: the last subnet of each transport owns an interval of the weighted draw that lies
		// entirely above the share of registrations that are overridden at all (50 %), so its
		// witness needs the two draws to be independent
		{CIDR: verifCIDR("10.10.0.0/16"), Weight: 3, Transport: "Min_Transport"},
		{CIDR: verifCIDR("10.20.30.0/24"), Weight: 1, Transport: "Min_Transport"},
		{CIDR: verifCIDR("10.50.0.0/16"), Weight: 2, Port: 80, Transport: "Prefix_Transport", PrefixId: prefix.GetLong},
		{CIDR: verifCIDR("10.60.70.0/24"), Weight: 2, Port: 22, Transport: "Prefix_Transport", PrefixId: prefix.OpenSSH2},
	}
	// built through the real constructors (they split the override subnets, compute the
	// cumulative weights and copy the exclusions); socket and selector are then scripted
	exclusions := []Subnet{{CIDR: verifCIDR("8.8.0.0/16")}}
	var p *RegProcessor
	if auth {
		p, err = newRegProcessor("127.0.0.1", 0, make([]byte, 64), false, nil, true, subnets, exclusions, 50, 50)
	} else {
		os.Setenv("PHANTOM_SUBNET_LOCATION", "../../phantoms/test/phantom_subnets.toml")
		p, err = NewRegProcessorNoAuth("127.0.0.1", 0, nil, true, subnets, exclusions, 50, 50)
	}
	if err != nil || p == nil {
		return // environment failure (socket, subnet file): nothing to check
	}
	if p.sock != nil {
		p.sock.Close()
	}
	p.sock = sock
	p.ipSelector = sel
	p.metrics = metrics.NewMetrics(logrus.New(), 24*time.Hour)
	p.regOverrides = nil
	_ = p.AddTransport(pb.TransportType_Min, min.Transport{})
	_ = p.AddTransport(pb.TransportType_Prefix, pt)
	minNets, prefNets := p.minOverrideSubnets, p.prefixOverrideSubnets
	if verifnd.Bool("param-overrides-configured") {
		fixed, err := prefix.TryFromID(prefix.PostLong)
		if err != nil {
			panic(err)
		}
		p.regOverrides = interfaces.Overrides{overrides.NewFixedPrefixOverride(fixed)}
	}

	// the client's request, incl. fields it is not allowed to set
	disable := verifnd.Bool("client-disables-overrides")
	tt := pb.TransportType_Min
	var params *anypb.Any
	if isPrefix {
		tt = pb.TransportType_Prefix
		id := int32(prefix.Min)
		rnd := verifnd.Bool("client-randomizes-port")
		params, _ = anypb.New(&pb.PrefixTransportParams{PrefixId: &id, RandomizeDstPort: &rnd})
	}
	forgedIP := uint32(0x01020304)
	req := &pb.C2SWrapper{
		SharedSecret: verifnd.Bytes("secret", 32),
		RegistrationPayload: &pb.ClientToStation{
			V4Support:                 proto.Bool(true),
			V6Support:                 proto.Bool(true),
			DecoyListGeneration:       proto.Uint32(1),
			ClientLibVersion:          proto.Uint32(4),
			Transport:                 &tt,
			TransportParams:           params,
			DisableRegistrarOverrides: &disable,
			CovertAddress:             proto.String("192.0.2.99:443"),
		},
	}
	if verifnd.Bool("client-forges-response") {
		req.RegistrationResponse = &pb.RegistrationResponse{Ipv4Addr: &forgedIP, DstPort: proto.Uint32(1)}
		req.RegRespBytes = verifnd.Bytes("forged-bytes", 4)
		req.RegRespSignature = verifnd.Bytes("forged-sig", 64)
	}
	verifnd.LoopBound("crypto/rand.Int", 2)
	clientAddr := net.ParseIP("203.0.113.5").To4()
	resp, err := p.RegisterBidirectional(req, pb.RegistrationSource_API, clientAddr)
	if err != nil {
		verifnd.Assert(len(sock.sent) == 0, "C12.error-forwards-nothing")
		// verif:optional-reach C12.rejected
		verifnd.Reach("C12.rejected")
		return
	}
	verifnd.Assert(resp != nil && len(sock.sent) == 1, "C12.one-forwarded-message")
	if resp == nil || len(sock.sent) != 1 {
		return
	}
	fwd := &pb.C2SWrapper{}
	verifnd.Assert(proto.Unmarshal(sock.sent[0], fwd) == nil, "C12.forwarded-parses")

	// (1) client view == station view of the response
	verifnd.Assert(verifSameResponse(resp, fwd.GetRegistrationResponse()), "C12.client-and-forwarded-response-equal")

	// (2) forged fields never survive
	verifnd.Assert(resp.GetIpv4Addr() != forgedIP && fwd.GetRegistrationResponse().GetIpv4Addr() != forgedIP, "C12.forged-response-discarded")
	if auth {
		rb, _ := proto.Marshal(fwd.GetRegistrationResponse())
		_ = rb
		verifnd.Assert(len(fwd.GetRegRespSignature()) > 0 && len(fwd.GetRegRespBytes()) > 0, "C12.signed-when-authenticated")
		resigned := &pb.RegistrationResponse{}
		verifnd.Assert(proto.Unmarshal(fwd.GetRegRespBytes(), resigned) == nil && verifSameResponse(resigned, resp), "C12.signed-bytes-are-the-response")
	} else {
		verifnd.Assert(len(fwd.GetRegRespSignature()) == 0 && len(fwd.GetRegRespBytes()) == 0, "C12.forged-signature-discarded")
	}

	// (3) parameter overrides only when the client allows them
	if disable {
		verifnd.Assert(resp.GetTransportParams() == nil, "C12.no-param-override-when-disabled")
	}

	// (4) address substitution: configured subnets of that transport only; never for excluded phantoms
	orig := binary.BigEndian.Uint32(sel.v4)
	got := resp.GetIpv4Addr()
	gotIP := make(net.IP, 4)
	binary.BigEndian.PutUint32(gotIP, got)
	if excluded {
		verifnd.Assert(got == orig, "C12.excluded-phantom-never-replaced")
	}
	if got != orig {
		nets := minNets
		if isPrefix {
			nets = prefNets
			verifnd.Assert(!disable, "C12.no-prefix-subnet-override-when-disabled")
		}
		in := false
		for i, sn := range nets {
			c := sn.CIDR.IPNet.Contains(gotIP)
			in = in || c
			if c && isPrefix {
				pp, ok := verifPrefixParams(resp)
				verifnd.Assert(ok && pp.GetPrefixId() == int32(sn.PrefixId) && resp.GetDstPort() == sn.Port, "C12.prefix-override-matches-its-subnet")
			}
			// one witness per transport and subnet: every override subnet with a non-zero weight is used
			switch {
			case c && i == 0 && !isPrefix:
				// verif:must-reach C12.min.first-override-subnet-used finding=C12-F1
				verifnd.Reach("C12.min.first-override-subnet-used")
			case c && i == 1 && !isPrefix:
				// verif:must-reach C12.min.second-override-subnet-used
				verifnd.Reach("C12.min.second-override-subnet-used")
			case c && i == 0 && isPrefix:
				// verif:must-reach C12.prefix.first-override-subnet-used finding=C12-F1
				verifnd.Reach("C12.prefix.first-override-subnet-used")
			case c && i == 1 && isPrefix:
				// verif:must-reach C12.prefix.second-override-subnet-used
				verifnd.Reach("C12.prefix.second-override-subnet-used")
			}
		}
		verifnd.Assert(in, "C12.override-address-inside-configured-subnet")
		verifnd.Reach("C12.overridden")
	}

	// (5) a station fed the forwarded message builds the same phantom, port and parameters
	verifStationView(fwd, resp, isPrefix, disable)
	verifnd.Reach("C12.done")
}

func verifStationView(fwd *pb.C2SWrapper, resp *pb.RegistrationResponse, isPrefix, disable bool) {
	rm := lib.VerifNewManager()
	pt, _ := prefix.Default([][32]byte{{}})
	_ = rm.AddTransport(pb.TransportType_Min, min.Transport{})
	_ = rm.AddTransport(pb.TransportType_Prefix, pt)
	reg, err := rm.NewRegistrationC2SWrapper(fwd, false)
	verifnd.Assert(err == nil && reg != nil, "C12.station-accepts-forwarded-message")
	if err != nil || reg == nil {
		return
	}
	want := make(net.IP, 4)
	binary.BigEndian.PutUint32(want, resp.GetIpv4Addr())
	verifnd.Assert(verifnd.BytesEq(reg.PhantomIp.To4(), want), "C12.station-phantom-equals-response")
	verifnd.Assert(uint32(reg.PhantomPort) == resp.GetDstPort(), "C12.station-port-equals-response")
	if isPrefix && !disable {
		if pp, ok := verifPrefixParams(resp); ok {
			sp, ok2 := reg.TransportParams().(*pb.PrefixTransportParams)
			verifnd.Assert(ok2 && sp.GetPrefixId() == pp.GetPrefixId(), "C12.station-params-equal-response")
		}
	}
	reg6, err := rm.NewRegistrationC2SWrapper(fwd, true)
	verifnd.Assert(err == nil && reg6 != nil && verifnd.BytesEq(reg6.PhantomIp, resp.GetIpv6Addr()), "C12.station-v6-phantom-equals-response")
}

package dnsregserver

import (
	"time"

	"github.com/refraction-networking/conjure/internal/verifnd"
	"github.com/refraction-networking/conjure/pkg/metrics"
	"github.com/refraction-networking/conjure/pkg/regserver/regprocessor"
	pb "github.com/refraction-networking/conjure/proto"
	"github.com/sirupsen/logrus"
	"google.golang.org/protobuf/proto"
)

// VerifC11DNSRequest: the DNS registration front end on a decoded request with
// arbitrary presence of its parts (no payload, no secret, any registration
// source incl. out of range, outdated / current / absent generation), an empty
// request, a real registrar behind it whose phantom selection succeeds or
// fails: processRequest returns a response or an error, never panics.
func VerifC11DNSRequest() {
	verifnd.Sequential()
	verifnd.LoopBound("crypto/rand.Int", 2)
	p := regprocessor.VerifNewScriptedProcessor(verifnd.Choose("selector", 3))
	if p == nil {
		return
	}
	s := &DNSRegServer{processor: p, latestCCGen: uint32(verifnd.Choose("server-generation", 3)), logger: logrus.New(),
		metrics: metrics.NewMetrics(logrus.New(), 24*time.Hour)}
	var in []byte
	if verifnd.Bool("non-empty-request") {
		m := &pb.C2SWrapper{}
		if verifnd.Bool("has-secret") {
			m.SharedSecret = verifnd.Bytes("secret", []int{32, 3}[verifnd.Choose("secret-len", 2)])
		}
		switch verifnd.Choose("source", 4) {
		case 1:
			m.RegistrationSource = pb.RegistrationSource_BidirectionalDNS.Enum()
		case 2:
			m.RegistrationSource = pb.RegistrationSource_DNS.Enum()
		case 3:
			x := pb.RegistrationSource(42)
			m.RegistrationSource = &x
		}
		switch verifnd.Choose("payload", 4) {
		case 1:
			m.RegistrationPayload = &pb.ClientToStation{}
		case 2:
			tt := pb.TransportType_Min
			m.RegistrationPayload = &pb.ClientToStation{Transport: &tt, V4Support: proto.Bool(true), V6Support: proto.Bool(verifnd.Bool("v6")),
				DecoyListGeneration: proto.Uint32(uint32(verifnd.Choose("client-generation", 3))), ClientLibVersion: proto.Uint32(4), CovertAddress: proto.String("192.0.2.99:443")}
		case 3:
			tt := pb.TransportType(77)
			m.RegistrationPayload = &pb.ClientToStation{Transport: &tt, V4Support: proto.Bool(true)}
		}
		in, _ = proto.Marshal(m)
	}
	out, err := s.processRequest(in)
	verifnd.Assert((out != nil) != (err != nil), "C11.dns.response-or-error")
	if err == nil {
		resp := &pb.DnsResponse{}
		verifnd.Assert(proto.Unmarshal(out, resp) == nil && resp.Success != nil && resp.ClientconfOutdated != nil, "C11.dns.response-is-complete")
		verifnd.Assert(resp.GetSuccess() || resp.BidirectionalResponse == nil, "C11.dns.failure-carries-no-registration")
	}
	verifnd.Reach("C11.dns.done")
}

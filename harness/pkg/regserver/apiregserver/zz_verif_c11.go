package apiregserver

import (
	"bytes"
	"errors"
	"io"
	"net/http"
	"time"

	"github.com/refraction-networking/conjure/internal/verifnd"
	"github.com/refraction-networking/conjure/pkg/metrics"
	"github.com/refraction-networking/conjure/pkg/phantoms"
	"github.com/refraction-networking/conjure/pkg/regserver/regprocessor"
	pb "github.com/refraction-networking/conjure/proto"
	"github.com/sirupsen/logrus"
	"google.golang.org/protobuf/proto"
)

// scripted registration processor: any of the documented outcomes
type verifProc struct{ outcome int }

var verifProcErrs = []error{nil, regprocessor.ErrNoC2SBody, phantoms.ErrLegacyMissingAddrs, phantoms.ErrLegacyV0SelectionBug,
	phantoms.ErrLegacyAddrSelectBug, regprocessor.ErrRegProcessFailed, errors.New("anything else")}

func (p verifProc) RegisterUnidirectional(*pb.C2SWrapper, pb.RegistrationSource, []byte) error {
	return verifProcErrs[p.outcome]
}
func (p verifProc) RegisterBidirectional(c *pb.C2SWrapper, s pb.RegistrationSource, a []byte) (*pb.RegistrationResponse, error) {
	if e := verifProcErrs[p.outcome]; e != nil {
		return nil, e
	}
	return &pb.RegistrationResponse{DstPort: proto.Uint32(443)}, nil
}

// scripted http.ResponseWriter
type verifRW struct {
	hdr      http.Header
	statuses []int
	body     []byte
	writeErr error
}

func (w *verifRW) Header() http.Header {
	if w.hdr == nil {
		w.hdr = http.Header{}
	}
	return w.hdr
}
func (w *verifRW) WriteHeader(code int) { w.statuses = append(w.statuses, code) }
func (w *verifRW) Write(b []byte) (int, error) {
	if len(w.statuses) == 0 {
		w.statuses = append(w.statuses, http.StatusOK) // net/http sends 200 with the first Write
	}
	if w.writeErr != nil {
		return 0, w.writeErr
	}
	w.body = append(w.body, b...)
	return len(b), nil
}

type verifFailingBody struct{}

func (verifFailingBody) Read([]byte) (int, error) {
	return 0, errors.New("connection reset while reading body")
}
func (verifFailingBody) Close() error { return nil }

// VerifC11APIHandlers: the two HTTP registration handlers on requests with any
// method, declared length below / at / above the minimum, any of: empty body,
// no body, a body that fails while being read, a structurally valid message with
// arbitrary presence of its sub-messages; the server with or without a newer
// ClientConf; every outcome of the registration processor; a response writer
// that fails - and, separately, every shape of peer address and
// X-Forwarded-For header.  Obligations: no panic (implicit) and the request
// always receives exactly one status line.
// verif:shards=2
func VerifC11APIHandlers() {
	verifnd.Sequential()
	bidirectional := verifnd.Choose("endpoint", 2) == 1 // sharded
	addressing := verifnd.Bool("vary-addressing")       // the two groups of dimensions are independent in the code
	s := &APIRegServer{
		logger:      logrus.New(),
		metrics:     metrics.NewMetrics(logrus.New(), 24*time.Hour),
		logClientIP: true,
	}
	r := &http.Request{Header: http.Header{}, Method: "POST", RemoteAddr: "203.0.113.9:4711", ContentLength: 100}
	w := &verifRW{}
	outcome := 0
	body := 0
	if addressing {
		r.RemoteAddr = []string{"203.0.113.9:4711", "127.0.0.1:4711", "[::1]:4711", "", "garbage"}[verifnd.Choose("remote", 5)]
		switch verifnd.Choose("forwarded", 5) {
		case 1:
			r.Header["X-Forwarded-For"] = []string{"198.51.100.7"}
		case 2:
			r.Header["X-Forwarded-For"] = []string{"198.51.100.7, 10.1.1.1"}
		case 3:
			r.Header["X-Forwarded-For"] = []string{""}
		case 4:
			r.Header["X-Forwarded-For"] = []string{"a,b,,", ","}
		}
	} else {
		outcome = verifnd.Choose("processor-outcome", len(verifProcErrs))
		if verifnd.Bool("server-has-clientconf") {
			s.latestClientConf = &pb.ClientConf{Generation: proto.Uint32(1)}
		}
		r.Method = []string{"POST", "GET"}[verifnd.Choose("method", 2)]
		r.ContentLength = []int64{100, 0, 33}[verifnd.Choose("content-length", 3)]
		body = verifnd.Choose("body", 4)
		if verifnd.Bool("response-write-fails") {
			w.writeErr = errors.New("broken pipe")
		}
	}
	s.processor = verifProc{outcome: outcome}
	switch body {
	case 0: // a message with arbitrary presence of its parts
		m := &pb.C2SWrapper{}
		if addressing || verifnd.Bool("has-secret") {
			m.SharedSecret = verifnd.Bytes("secret", 32)
		}
		switch pl := verifnd.Choose("payload", 4); {
		case addressing || pl == 1:
			m.RegistrationPayload = &pb.ClientToStation{DecoyListGeneration: proto.Uint32(2)} // up to date
		case pl == 2:
			m.RegistrationPayload = &pb.ClientToStation{DecoyListGeneration: proto.Uint32(0)} // outdated
		case pl == 3:
			m.RegistrationPayload = &pb.ClientToStation{}
		}
		if !addressing && verifnd.Bool("has-response") {
			m.RegistrationResponse = &pb.RegistrationResponse{}
		}
		b, _ := proto.Marshal(m)
		r.Body = io.NopCloser(bytes.NewReader(b))
	case 1:
		r.Body = io.NopCloser(bytes.NewReader(nil))
	case 2:
		r.Body = verifFailingBody{}
	case 3:
		r.Body = http.NoBody
	}
	if bidirectional {
		s.registerBidirectional(w, r)
	} else {
		s.register(w, r)
	}
	verifnd.Assert(len(w.statuses) >= 1, "C11.api.request-receives-a-status-line")
	verifnd.Assert(len(w.statuses) <= 1, "C11.api.at-most-one-status-line")
	verifnd.Reach("C11.api.done")
}

package dns

import (
	"bytes"
	"io"

	"github.com/refraction-networking/conjure/internal/verifnd"
)

// VerifC11MessageFromWireFormat: the DNS parser returns or errors on every
// byte string; never panics, never loops past its unwinding bound.
// verif:shards=8
func VerifC11MessageFromWireFormat() {
	lens := []int{0, 1, 11, 12, 13, 14, 15, 16}
	k := verifnd.Choose("len", len(lens))
	n := lens[k]
	if n > 13 && !verifnd.Thorough() || n > 14 {
		return
	}
	verifnd.MaxSymAlloc(n + 1) // longer labels/rdata all end in the same EOF path
	buf := verifnd.Bytes("wire", n)
	// counts are 16-bit fields: cut the number of entries the parser is asked
	// to read so that the exploration stays inside the bound (each entry needs
	// at least 5 bytes of input, so larger counts only reach the same EOF path).
	if n >= 12 {
		for i := 4; i < 12; i += 2 {
			verifnd.Cut("dns.section-count<=1", verifnd.And(buf[i] == 0, buf[i+1] <= 1))
		}
	}
	msg, err := MessageFromWireFormat(buf)
	if err == nil {
		verifnd.Reach("C11.dns.parsed")
		// a parsed message re-encodes without panic
		_, _ = msg.WireFormat()
	} else {
		verifnd.Reach("C11.dns.rejected")
	}
}

// VerifC11ReadName: the name reader alone (labels, compression pointers,
// pointer loops, reserved label types) on every buffer up to the bound, starting
// at any offset.
// verif:shards=10
func VerifC11ReadName() {
	n := verifnd.Choose("len", 10)
	if n > 5 && !verifnd.Thorough() || n > 7 {
		return
	}
	verifnd.MaxSymAlloc(n + 1) // longer labels all end in the same EOF path
	buf := verifnd.Bytes("wire", n)
	r := bytes.NewReader(buf)
	start := verifnd.Choose("start", n+1)
	_, _ = r.Seek(int64(start), 0)
	name, err := readName(r)
	if err == nil {
		// what was accepted satisfies the documented limits
		total := 1
		for _, l := range name {
			verifnd.Assert(len(l) >= 1 && len(l) <= 63, "C11.dns.readname.label")
			total += 1 + len(l)
		}
		verifnd.Assert(total <= 255, "C11.dns.readname.total")
		verifnd.Reach("C11.dns.readname.ok")
	} else {
		verifnd.Reach("C11.dns.readname.err")
	}
}

// VerifC11ReadRR: the fixed part of a resource record behind a root or
// one-byte-label name (name parsing itself is VerifC11ReadName's subject):
// type, class, TTL and the 16-bit rdlength against a short buffer.
// verif:shards=8
func VerifC11ReadRR() {
	lens := []int{0, 1, 5, 10, 11, 12, 13, 14}
	n := lens[verifnd.Choose("len", len(lens))]
	verifnd.MaxSymAlloc(n + 1)
	buf := verifnd.Bytes("wire", n)
	nameLen := 1
	if n > 0 {
		if verifnd.Choose("name", 2) == 0 {
			verifnd.Cut("dns.rr-root-name", buf[0] == 0)
		} else {
			verifnd.Cut("dns.rr-one-label-name", verifnd.And(buf[0] == 1, n < 3 || buf[2] == 0))
			nameLen = 3
		}
	}
	rr, err := readRR(bytes.NewReader(buf))
	if err == nil {
		verifnd.Assert(len(rr.Data) <= n-nameLen-10, "C11.dns.readrr.len")
		verifnd.Reach("C11.dns.readrr.ok")
	} else {
		verifnd.Reach("C11.dns.readrr.err")
	}
}

// VerifC11DecodeTXT: TXT decoder on arbitrary bytes.
func VerifC11DecodeTXT() {
	n := verifnd.Choose("len", 9)
	p := verifnd.Bytes("rdata", n)
	out, err := DecodeRDataTXT(p)
	if err == nil {
		verifnd.Assert(len(out) < len(p), "C11.txt.len")
		verifnd.Reach("C11.txt.ok")
	}
	verifnd.Reach("C11.txt.done")
}

// VerifC15TXT: DecodeRDataTXT(EncodeRDataTXT(p)) == p.
func VerifC15TXT() {
	lens := []int{0, 1, 2, 100, 254, 255, 256, 257, 509, 510, 511, 512, 765, 766, 1000}
	n := lens[verifnd.Choose("len", len(lens))]
	p := verifnd.Bytes("payload", n)
	enc := EncodeRDataTXT(p)
	dec, err := DecodeRDataTXT(enc)
	verifnd.Assert(err == nil && bytes.Equal(dec, p), "C15.txt.roundtrip")
	// one length octet per started chunk of 255 (at least one)
	want := n + 1
	if n > 0 {
		want += (n - 1) / 255
	}
	verifnd.Assert(len(enc) == want, "C15.txt.length")
	verifnd.Reach("C15.txt.done")
}

// plainLabel: n symbolic bytes cut to lower-case letters, so that the escaping
// decision in Name.String() (explored over arbitrary bytes by
// VerifC15NameRoundTrip) does not multiply the paths of the message harness.
func plainLabel(tag string, n int) []byte {
	b := verifnd.Bytes(tag, n)
	for _, c := range b {
		verifnd.Cut("dns.msg-labels-lowercase", verifnd.And(c >= 'a', c <= 'z'))
	}
	return b
}

func symLabel(tag string, maxLen int) []byte {
	n := 1 + verifnd.Choose(tag+".len", maxLen)
	return verifnd.Bytes(tag, n)
}

func symName(tag string, maxLabels, maxLen int) Name {
	k := verifnd.Choose(tag+".labels", maxLabels+1)
	var labels [][]byte
	for i := 0; i < k; i++ {
		labels = append(labels, symLabel(tag+".l"+string(rune('0'+i)), maxLen))
	}
	return Name(labels)
}

func verifNamesEqual(a, b Name) bool {
	if len(a) != len(b) {
		return false
	}
	for i := range a {
		if !bytes.Equal(a[i], b[i]) {
			return false
		}
	}
	return true
}

// VerifC15NameRoundTrip: a name written by the message builder is read back
// identically, for names built from arbitrary label bytes.
func VerifC15NameRoundTrip() {
	name := symName("n", 2, 2)
	checked, err := NewName(name)
	if err != nil {
		return // short labels are always valid; limits are VerifC15NameLimits' subject
	}
	b := newMessageBuilder()
	if err := b.WriteName(checked); err != nil {
		return
	}
	got, err := readName(bytes.NewReader(b.Bytes()))
	verifnd.Assert(err == nil && verifNamesEqual(got, checked), "C15.name.roundtrip")
	verifnd.Reach("C15.name.done")
}

// VerifC15NameLimits: representation limits of names (63/64-byte labels,
// 255/256-byte names) are rejected by NewName, accepted ones round-trip.
func VerifC15NameLimits() {
	var labels [][]byte
	switch verifnd.Choose("shape", 5) {
	case 0: // one label of 63
		labels = [][]byte{verifnd.Bytes("l63", 63)}
	case 1: // one label of 64
		labels = [][]byte{verifnd.Bytes("l64", 64)}
	case 2: // encoded length exactly 255: 3*(1+63) + (1+61) + 1
		labels = [][]byte{verifnd.Bytes("a", 63), verifnd.Bytes("b", 63), verifnd.Bytes("c", 63), verifnd.Bytes("d", 61)}
	case 3: // encoded length 256
		labels = [][]byte{verifnd.Bytes("a", 63), verifnd.Bytes("b", 63), verifnd.Bytes("c", 63), verifnd.Bytes("d", 62)}
	case 4: // empty label
		labels = [][]byte{verifnd.Bytes("a", 1), {}}
	}
	// keep String()'s per-byte escaping decision out of the path count: plain letters
	for _, l := range labels {
		for _, c := range l {
			verifnd.Cut("dns.limit-labels-lowercase", verifnd.And(c >= 'a', c <= 'z'))
		}
	}
	name, err := NewName(labels)
	tooLong := false
	total := 1
	for _, l := range labels {
		total += 1 + len(l)
		if len(l) > 63 || len(l) == 0 {
			tooLong = true
		}
	}
	if total > 255 {
		tooLong = true
	}
	verifnd.Assert((err != nil) == tooLong, "C15.name.limits")
	if err == nil {
		b := newMessageBuilder()
		_ = b.WriteName(name)
		got, err2 := readName(bytes.NewReader(b.Bytes()))
		verifnd.Assert(err2 == nil && verifNamesEqual(got, name), "C15.name.limits.roundtrip")
		verifnd.Reach("C15.name.limits.accepted")
	} else {
		verifnd.Reach("C15.name.limits.rejected")
	}
}

// VerifC15MessageRoundTrip: MessageFromWireFormat(m.WireFormat()) == m for
// messages with one question and up to two resource records that share name
// suffixes (exercises the compression pointers).
func VerifC15MessageRoundTrip() {
	var m Message
	m.ID = verifnd.U16("id")
	m.Flags = verifnd.U16("flags")
	base := Name{[]byte("t"), plainLabel("base", 1)}
	q := Question{Name: append(Name{plainLabel("ql", 2)}, base...), Type: verifnd.U16("qtype"), Class: verifnd.U16("qclass")}
	m.Question = []Question{q}
	nrr := verifnd.Choose("rrs", 3)
	for i := 0; i < nrr; i++ {
		var nm Name
		switch verifnd.Choose("rrname", 3) {
		case 0:
			nm = q.Name // full pointer
		case 1:
			nm = base // pointer into the middle
		case 2:
			nm = Name{plainLabel("rl", 1)}
		}
		rr := RR{Name: nm, Type: verifnd.U16("type"), Class: verifnd.U16("class"), TTL: verifnd.U32("ttl"),
			Data: verifnd.Bytes("data", verifnd.Choose("dlen", 3))}
		if verifnd.Bool("additional") {
			m.Additional = append(m.Additional, rr)
		} else {
			m.Answer = append(m.Answer, rr)
		}
	}
	wire, err := m.WireFormat()
	if err != nil {
		return
	}
	got, err := MessageFromWireFormat(wire)
	ok := err == nil && got.ID == m.ID && got.Flags == m.Flags && len(got.Question) == 1 &&
		verifNamesEqual(got.Question[0].Name, q.Name) && got.Question[0].Type == q.Type && got.Question[0].Class == q.Class &&
		len(got.Answer) == len(m.Answer) && len(got.Additional) == len(m.Additional) && len(got.Authority) == 0
	verifnd.Assert(ok, "C15.msg.roundtrip.header")
	if ok {
		for i := range m.Answer {
			a, b := got.Answer[i], m.Answer[i]
			verifnd.Assert(verifNamesEqual(a.Name, b.Name) && a.Type == b.Type && a.Class == b.Class && a.TTL == b.TTL && bytes.Equal(a.Data, b.Data), "C15.msg.roundtrip.answer")
		}
		for i := range m.Additional {
			a, b := got.Additional[i], m.Additional[i]
			verifnd.Assert(verifNamesEqual(a.Name, b.Name) && a.Type == b.Type && a.Class == b.Class && a.TTL == b.TTL && bytes.Equal(a.Data, b.Data), "C15.msg.roundtrip.additional")
		}
	}
	verifnd.Reach("C15.msg.done")
}

// VerifC15TwoNames: two names of ARBITRARY label bytes (incl. '.', '\\', NUL)
// written into one message by the builder - the second may be emitted as a
// compression pointer into the first - are both read back identically.  The
// label shapes are chosen so that the two names can have equal byte content
// with different label boundaries ((3,1) against (1,1,1), (1,3), (3), (1,1)).
// Bound: every label byte is one of '.', '\\', 'a', 'b' (the separator and the
// escape character of Name.String, and two plain letters): Name.String decides
// a 7-way character class per byte, which over arbitrary bytes is 7^7 paths;
// arbitrary bytes of a single name are VerifC15NameRoundTrip's subject.
// verif:shards=4
func VerifC15TwoNames() {
	shape := verifnd.Choose("second-shape", 4)
	n1 := Name{verifnd.Bytes("a0", 3), verifnd.Bytes("a1", 1)}
	var n2 Name
	switch shape {
	case 0:
		n2 = Name{verifnd.Bytes("b0", 1), verifnd.Bytes("b1", 1), verifnd.Bytes("b2", 1)}
	case 1:
		n2 = Name{verifnd.Bytes("b0", 1), verifnd.Bytes("b1", 3)}
	case 2:
		n2 = Name{verifnd.Bytes("b0", 3)}
	case 3:
		n2 = Name{verifnd.Bytes("b0", 1), verifnd.Bytes("b1", 1)}
	}
	for _, nm := range []Name{n1, n2} {
		for _, l := range nm {
			for _, c := range l {
				verifnd.Cut("dns.twonames-alphabet", verifnd.Or(verifnd.Or(c == '.', c == '\\'), verifnd.Or(c == 'a', c == 'b')))
			}
		}
	}
	b := newMessageBuilder()
	if b.WriteName(n1) != nil || b.WriteName(n2) != nil {
		return
	}
	r := bytes.NewReader(b.Bytes())
	g1, err1 := readName(r)
	g2, err2 := readName(r)
	verifnd.Assert(err1 == nil && verifNamesEqual(g1, n1), "C15.twonames.first")
	verifnd.Assert(err2 == nil && verifNamesEqual(g2, n2), "C15.twonames.second")
	verifnd.Reach("C15.twonames.done")
}

// VerifC15FarNames: the same name written twice behind K bytes of earlier
// message content, K at and around the limit of what a compression pointer can
// address (14 bits) and around 16 bits: both occurrences are read back
// identically (the second is a pointer only where a pointer can express the offset).
// verif:shards=11
func VerifC15FarNames() {
	ks := []int{0, 12, 0x3ffb, 0x3ffc, 0x3ffd, 0x3ffe, 0x3fff, 0x4000, 0x4001, 0xfffe, 0x10003}
	k := ks[verifnd.Choose("offset", len(ks))]
	n := Name{plainLabel("l0", 2), plainLabel("l1", 1)}
	b := newMessageBuilder()
	pad := make([]byte, k)
	for i := range pad {
		pad[i] = 0xc0 // whatever a misdirected pointer lands on is itself a pointer (to offset 0xc0c0 & 0x3fff)
	}
	_, _ = b.w.Write(pad)
	if b.WriteName(n) != nil || b.WriteName(n) != nil {
		return
	}
	r := bytes.NewReader(b.Bytes())
	_, _ = r.Seek(int64(k), io.SeekStart)
	g1, err1 := readName(r)
	g2, err2 := readName(r)
	verifnd.Assert(err1 == nil && verifNamesEqual(g1, n), "C15.farnames.first")
	verifnd.Assert(err2 == nil && verifNamesEqual(g2, n), "C15.farnames.second")
	verifnd.Reach("C15.farnames.done")
}

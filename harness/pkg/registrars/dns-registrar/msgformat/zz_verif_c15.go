package msgformat

import (
	"bytes"

	"github.com/refraction-networking/conjure/internal/verifnd"
)

// lens15 is the enumerated length dimension: every length around the
// representation limits plus a spread of ordinary ones.
func reqLen() int {
	lens := []int{0, 1, 2, 3, 7, 8, 31, 32, 63, 64, 100, 127, 128, 200, 253, 254, 255, 256, 257, 300, 511, 512, 513}
	return lens[verifnd.Choose("len", len(lens))]
}

func respLen() int {
	lens := []int{0, 1, 2, 255, 256, 257, 1000, 65534, 65535, 65536, 65537, 70000}
	return lens[verifnd.Choose("len", len(lens))]
}

// VerifC15RequestFormat: decode(encode(p)) == p or encode fails, for every payload.
func VerifC15RequestFormat() {
	n := reqLen()
	p := verifnd.Bytes("payload", n)
	verifnd.Finding("C15-F1", n > 255)
	enc, err := AddRequestFormat(p)
	if err != nil {
		// verif:optional-reach C15.req.rejected (reached only once the encoder rejects oversized payloads)
		verifnd.Reach("C15.req.rejected")
		return
	}
	dec, err2 := RemoveRequestFormat(enc)
	verifnd.Assert(err2 == nil && bytes.Equal(dec, p), "C15.req.roundtrip")
	verifnd.Reach("C15.req.done")
}

// VerifC15ResponseFormat: same for the two-byte framing.
func VerifC15ResponseFormat() {
	n := respLen()
	p := verifnd.Bytes("payload", n)
	verifnd.Finding("C15-F1", n > 65535)
	enc, err := AddResponseFormat(p)
	if err != nil {
		// verif:optional-reach C15.resp.rejected
		verifnd.Reach("C15.resp.rejected")
		return
	}
	dec, err2 := RemoveResponseFormat(enc)
	verifnd.Assert(err2 == nil && bytes.Equal(dec, p), "C15.resp.roundtrip")
	verifnd.Reach("C15.resp.done")
}

// VerifC11RemoveFormats: decoders never panic on arbitrary bytes, and what they
// return is a sub-slice of the input of the announced length.
func VerifC11RemoveFormats() {
	n := verifnd.Choose("len", 6)
	p := verifnd.Bytes("wire", n)
	if verifnd.Choose("which", 2) == 0 {
		out, err := RemoveRequestFormat(p)
		if err == nil {
			verifnd.Assert(len(out) == int(p[0]) && len(out) <= n-1, "C11.msgformat.req.len")
			verifnd.Reach("C11.msgformat.req.ok")
		}
	} else {
		out, err := RemoveResponseFormat(p)
		if err == nil {
			verifnd.Assert(len(out) == int(p[0])<<8|int(p[1]) && len(out) <= n-2, "C11.msgformat.resp.len")
			verifnd.Reach("C11.msgformat.resp.ok")
		}
	}
	verifnd.Reach("C11.msgformat.done")
}

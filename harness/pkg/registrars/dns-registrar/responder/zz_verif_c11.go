package responder

import (
	"github.com/refraction-networking/conjure/internal/verifnd"
	"github.com/refraction-networking/conjure/pkg/registrars/dns-registrar/dns"
)

// VerifC11Responder: the DNS registrar's responder on any parsed query: any
// flags and id, 0-2 questions of any type/class whose name does or does not end
// in the served domain and carries 0-2 leading labels of arbitrary bytes (the
// base32 payload; bound: label bytes from {a, A, 2, 1, .}), 0-2 additional records (OPT or not, any class and TTL, so any
// EDNS version and payload size): responseFor answers or stays silent, the
// answer (with a TXT payload of 0..300 bytes) serialises or reports an error;
// nothing panics, and a payload is only returned with a NOERROR response.
// verif:shards=3
func VerifC11Responder() {
	nq := verifnd.Choose("questions", 3) // sharded
	domain := dns.Name{[]byte("r"), []byte("example")}
	r := &Responder{domain: domain, maxUDPPayload: 1232 - 8}
	q := &dns.Message{ID: verifnd.U16("id"), Flags: verifnd.U16("flags")}
	for i := 0; i < nq; i++ {
		var name dns.Name
		nl := 0
		if nq == 1 {
			// (with two questions the answer is FORMERR whatever the names are)
			// bound (quick): at most one payload label; two in the thorough tier
			if verifnd.Thorough() {
				nl = verifnd.Choose("payload-labels", 3)
			} else {
				nl = verifnd.Choose("payload-labels", 2)
			}
		}
		for j := 0; j < nl; j++ {
			l := verifnd.Bytes("label", 1+verifnd.Choose("label-len", 2))
			for _, c := range l {
				// bound: one representative per class of the base32 decoder and of Name.String
				// (lower / upper case letter, valid digit, invalid digit, a byte that needs escaping)
				verifnd.Cut("responder-label-alphabet", verifnd.Or(verifnd.Or(c == 'a', c == 'A'), verifnd.Or(verifnd.Or(c == '2', c == '1'), c == '.')))
			}
			name = append(name, l)
		}
		switch verifnd.Choose("suffix", 3) {
		case 0:
			name = append(name, domain...)
		case 1:
			name = append(name, []byte("R"), []byte("EXAMPLE")) // case-insensitive match?
		case 2:
			name = append(name, []byte("other"))
		}
		q.Question = append(q.Question, dns.Question{Name: name, Type: verifnd.U16("qtype"), Class: verifnd.U16("qclass")})
	}
	na := verifnd.Choose("additionals", 3)
	for i := 0; i < na; i++ {
		q.Additional = append(q.Additional, dns.RR{Name: dns.Name{}, Type: verifnd.U16("rrtype"), Class: verifnd.U16("rrclass"), TTL: verifnd.U32("rrttl")})
	}
	resp, payload := r.responseFor(q, domain)
	if resp == nil {
		verifnd.Assert(payload == nil, "C11.responder.silent-means-no-payload")
		verifnd.Reach("C11.responder.silent")
		return
	}
	verifnd.Assert(payload == nil || resp.Rcode() == dns.RcodeNoError, "C11.responder.payload-only-with-noerror")
	n := 0
	if resp.Rcode() == dns.RcodeNoError {
		n = []int{0, 1, 255, 256, 300}[verifnd.Choose("response-len", 5)] // (only a NOERROR answer carries the TXT payload)
	}
	out, err := r.dnsRespToUDPResp(resp, make([]byte, n))
	verifnd.Assert((out == nil) == (err != nil), "C11.responder.wire-or-error")
	verifnd.Reach("C11.responder.answered")
}

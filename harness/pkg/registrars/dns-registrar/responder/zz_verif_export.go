package responder

import "github.com/refraction-networking/conjure/pkg/registrars/dns-registrar/dns"

// VerifResponseFor exposes the responder's query decoding to the round-trip
// harness in the requester package.
func VerifResponseFor(domain dns.Name, maxUDPPayload int, q *dns.Message) (*dns.Message, []byte) {
	r := &Responder{domain: domain, maxUDPPayload: maxUDPPayload}
	return r.responseFor(q, domain)
}

// VerifAnswer builds the response packet for a decoded query and a payload.
func VerifAnswer(domain dns.Name, resp *dns.Message, payload []byte) ([]byte, error) {
	r := &Responder{domain: domain}
	return r.dnsRespToUDPResp(resp, payload)
}

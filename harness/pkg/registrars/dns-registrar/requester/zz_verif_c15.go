package requester

import (
	"bytes"
	"net"
	"time"

	"github.com/refraction-networking/conjure/internal/verifnd"
	"github.com/refraction-networking/conjure/pkg/registrars/dns-registrar/dns"
	"github.com/refraction-networking/conjure/pkg/registrars/dns-registrar/responder"
)

// a transport that records what the requester writes
type verifWire struct{ written [][]byte }

func (w *verifWire) Write(b []byte) (int, error) {
	w.written = append(w.written, append([]byte{}, b...))
	return len(b), nil
}
func (w *verifWire) Read([]byte) (int, error)         { return 0, net.ErrClosed }
func (w *verifWire) Close() error                     { return nil }
func (w *verifWire) LocalAddr() net.Addr              { return nil }
func (w *verifWire) RemoteAddr() net.Addr             { return nil }
func (w *verifWire) SetDeadline(time.Time) error      { return nil }
func (w *verifWire) SetReadDeadline(time.Time) error  { return nil }
func (w *verifWire) SetWriteDeadline(time.Time) error { return nil }

// VerifC15RequestPath: the DNS registrar's request path end to end across its
// two programs: the requester packs a packet into a query name (base32, lower
// case, labels of at most 63 octets, the domain appended) and serialises the
// query; the responder parses the wire format, recognises its domain, and
// unpacks the name.  For every packet of 0-1 bytes (arbitrary contents) and for
// packets of each length at the label-chunking and name-length limits (2, 39/40
// bytes = 63/64 characters, 78/79 = two/three labels, the longest packet that
// fits a 255-octet name and the first that does not; contents a fixed pattern)
// the responder recovers exactly the packet, or the requester reports an error
// and writes nothing.  And back: the response built for that query carries a
// payload of 0 / 1 / 255 / 256 bytes that the requester's decoder returns
// unchanged.
// verif:shards=9
func VerifC15RequestPath() {
	domain := dns.Name{[]byte("r"), []byte("example"), []byte("com")}
	lens := []int{0, 1, 2, 39, 40, 78, 79, 147, 148}
	n := lens[verifnd.Choose("packet-len", len(lens))] // sharded
	var p []byte
	if n <= 1 {
		p = verifnd.Bytes("packet", n)
	} else {
		p = make([]byte, n)
		for i := range p {
			p[i] = byte(37*i + 11)
		}
	}
	// does the packet fit a 255-octet name?  base32 without padding: ceil(8n/5) characters, one
	// length octet per label of at most 63, the domain's labels, the root
	chars := (8*n + 4) / 5
	nameLen := chars + (chars+62)/63 + 1
	for _, l := range domain {
		nameLen += 1 + len(l)
	}
	fits := nameLen <= 255
	wire := &verifWire{}
	c := &DNSPacketConn{domain: domain}
	err := c.send(wire, p)
	if err != nil {
		verifnd.Assert(len(wire.written) == 0, "C15.reqpath.refused-packet-is-not-sent")
		verifnd.Assert(!fits, "C15.reqpath.only-oversized-packets-are-refused")
		verifnd.Reach("C15.reqpath.refused")
		return
	}
	verifnd.Assert(fits, "C15.reqpath.oversized-packet-is-refused")
	verifnd.Assert(len(wire.written) == 1, "C15.reqpath.one-query-per-packet")
	if len(wire.written) != 1 {
		return
	}
	q, perr := dns.MessageFromWireFormat(wire.written[0])
	verifnd.Assert(perr == nil, "C15.reqpath.query-parses")
	if perr != nil {
		return
	}
	resp, got := responder.VerifResponseFor(domain, 1232-8, &q)
	verifnd.Assert(resp != nil && resp.Rcode() == dns.RcodeNoError, "C15.reqpath.responder-accepts-the-query")
	verifnd.Assert(len(got) == n && bytes.Equal(got, p), "C15.reqpath.responder-recovers-the-packet")
	if resp == nil {
		return
	}
	// ... and the way back
	m := []int{0, 1, 255, 256}[verifnd.Choose("response-len", 4)]
	payload := verifnd.Bytes("response", m)
	out, aerr := responder.VerifAnswer(domain, resp, payload)
	verifnd.Assert(aerr == nil, "C15.reqpath.response-serialises")
	if aerr != nil {
		return
	}
	back, berr := dns.MessageFromWireFormat(out)
	verifnd.Assert(berr == nil, "C15.reqpath.response-parses")
	if berr == nil {
		dec := dnsResponsePayload(&back, domain)
		verifnd.Assert(len(dec) == m && verifnd.BytesEq(dec, payload), "C15.reqpath.requester-recovers-the-response")
	}
	verifnd.Reach("C15.reqpath.done")
}

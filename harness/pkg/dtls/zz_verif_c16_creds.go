package dtls

import (
	"bytes"
	"context"
	"crypto/tls"
	"errors"
	"io"
	"net"
	"sync"
	"time"

	pdtls "github.com/pion/dtls/v2"

	"github.com/refraction-networking/conjure/internal/verifnd"
)

// ---- model of the third-party handshake engine (pion DTLS), written down from its documented
// callback protocol; everything the repository contributes to a handshake - the credentials
// derived from the secret, the certificate chosen for a ClientHello, the two verification
// callbacks, the routing of the accepted connection - is the real code ----

const verifPionPath = "github.com/pion/dtls/v2"

// key material of a certificate: the bytes newCertificate draws from its random source (ECDSA
// P-256 key: 40, serial number below 2^130: 17, common name: 8).  The DER encoding, which is a
// function of exactly these draws (plus a signature that verifyCert checks against the key), is
// idealised to the draws themselves.
func verifModelNewCertificate(r io.Reader) (*tls.Certificate, error) {
	km := make([]byte, 65)
	if _, err := io.ReadFull(r, km); err != nil {
		return &tls.Certificate{}, err
	}
	return &tls.Certificate{Certificate: [][]byte{km}}, nil
}

// a self-signed certificate verifies against another one exactly when both carry the same key
func verifModelVerifyCert(cert, correct []byte) error {
	if len(cert) > 0 && bytes.Equal(cert, correct) {
		return nil
	}
	return errors.New("x509: signature does not verify against the expected certificate")
}

type verifHSConn struct {
	verifNetConn
	ccfg   *pdtls.Config
	result chan error
}

func (c *verifHSConn) SetDeadline(time.Time) error { return nil }
func (c *verifHSConn) RemoteAddr() net.Addr { return &net.UDPAddr{IP: net.IPv4(192, 0, 2, 7), Port: 4000} }

type verifInner struct {
	ch     chan net.Conn
	closed chan struct{}
	once   sync.Once
}

func (v *verifInner) Accept() (net.Conn, error) {
	select {
	case c := <-v.ch:
		return c, nil
	case <-v.closed:
		return nil, net.ErrClosed
	}
}
func (v *verifInner) Close() error   { v.once.Do(func() { close(v.closed) }); return nil }
func (v *verifInner) Addr() net.Addr { return &net.UDPAddr{} }

var (
	verifWire   *verifInner
	verifStates map[*pdtls.Conn]*pdtls.State
	verifStMu   sync.Mutex
)

// client side of the engine: the first flight reaches the listener's socket; the call returns
// when the server side has run the handshake
func verifModelPionClient(ctx context.Context, conn net.Conn, cfg *pdtls.Config) (*pdtls.Conn, error) {
	hs := &verifHSConn{ccfg: cfg, result: make(chan error, 1)}
	verifWire.ch <- hs
	if err := <-hs.result; err != nil {
		return nil, err
	}
	return &pdtls.Conn{}, nil
}

// server side of the engine, in the order pion runs the callbacks: cipher-suite probe and
// certificate selection from the ClientHello (GetCertificate), the client's check of the server
// certificate (VerifyPeerCertificate, raw certificates, InsecureSkipVerify), the mandatory client
// certificate (RequireAnyClientCert), the server's VerifyPeerCertificate and VerifyConnection.
func verifModelPionServer(ctx context.Context, c net.Conn, scfg *pdtls.Config) (*pdtls.Conn, error) {
	hs := c.(*verifHSConn)
	fail := func(err error) (*pdtls.Conn, error) { hs.result <- err; return nil, err }
	ccfg := hs.ccfg
	var random [28]byte
	if ccfg.CustomClientHelloRandom != nil {
		random = ccfg.CustomClientHelloRandom()
	} else {
		copy(random[:], verifnd.Bytes("fresh-hello-random", 28))
	}
	var serverCert *tls.Certificate
	switch {
	case scfg.GetCertificate != nil:
		if _, err := scfg.GetCertificate(&pdtls.ClientHelloInfo{}); err != nil { // cipher-suite probe
			return fail(err)
		}
		sc, err := scfg.GetCertificate(&pdtls.ClientHelloInfo{CipherSuites: []pdtls.CipherSuiteID{pdtls.TLS_ECDHE_ECDSA_WITH_AES_128_GCM_SHA256}, RandomBytes: random})
		if err != nil || sc == nil {
			return fail(errors.New("no certificate for this ClientHello"))
		}
		serverCert = sc
	case len(scfg.Certificates) > 0:
		serverCert = &scfg.Certificates[0]
	default:
		return fail(errors.New("server has no certificate"))
	}
	if ccfg.VerifyPeerCertificate != nil {
		if err := ccfg.VerifyPeerCertificate(serverCert.Certificate, nil); err != nil {
			return fail(err)
		}
	} else if !ccfg.InsecureSkipVerify {
		return fail(errors.New("x509: certificate signed by unknown authority"))
	}
	if len(ccfg.Certificates) == 0 || len(ccfg.Certificates[0].Certificate) == 0 {
		if scfg.ClientAuth >= pdtls.RequireAnyClientCert {
			return fail(errors.New("client did not present a certificate"))
		}
	}
	var peer [][]byte
	if len(ccfg.Certificates) > 0 {
		peer = ccfg.Certificates[0].Certificate
	}
	if scfg.VerifyPeerCertificate != nil {
		if err := scfg.VerifyPeerCertificate(peer, nil); err != nil {
			return fail(err)
		}
	}
	// the hello-random travels in an exported field of the state (the real field is unexported)
	st := &pdtls.State{PeerCertificates: peer, IdentityHint: append([]byte(nil), random[:]...)}
	if scfg.VerifyConnection != nil {
		if err := scfg.VerifyConnection(st); err != nil {
			return fail(err)
		}
	}
	conn := &pdtls.Conn{}
	verifStMu.Lock()
	verifStates[conn] = st
	verifStMu.Unlock()
	hs.result <- nil
	return conn, nil
}

func verifModelConnectionState(c *pdtls.Conn) pdtls.State {
	verifStMu.Lock()
	defer verifStMu.Unlock()
	if st := verifStates[c]; st != nil {
		return *st
	}
	return pdtls.State{}
}

func verifModelRemoteRandom(s *pdtls.State) [28]byte {
	var r [28]byte
	copy(r[:], s.IdentityHint)
	return r
}

// VerifC16Credentials: both ends derive their DTLS credentials from the shared secret and a
// handshake completes only when both used the same secret; the accepted connection goes to the
// caller waiting for that secret and to no other.  Real code: NewListener, acceptLoop,
// acceptDTLSConn (registration, routing, removal), getCertificateFromClientHello,
// verifyConnection, dtlsCtx (the dialling side's configuration and its check of the server
// certificate), certsFromSeed, clientHelloRandomFromSeed over the HKDF model.  Secrets are
// arbitrary 32-byte strings: A and B wait on the listener (B optional), the dialling side uses
// A's secret, B's secret or a third one that nobody registered.
// Model (trusted, listed in the evidence): pion's handshake as its documented callback order;
// a certificate is its key material; verification succeeds exactly for equal key material.
// Idealisation (cut): different secrets give different hello-randoms and key material.
// Three more scenarios without the listener: an impostor answers the dialling side with a
// certificate of its own and accepts any client (the dialling side must refuse it); the
// single-connection server of server.go (ServerWithContext; SCTP wrapping modelled as identity)
// against a dialling side with the same and with a different secret.
// verif:replay=model
// verif:shards=6
func VerifC16Credentials() {
	verifnd.Sequential()
	who := verifnd.Choose("dialler-uses", 6) // sharded: A's secret, B's secret, an unregistered secret | impostor, server.go same / different secret
	withB := verifnd.Bool("second-acceptor")
	verifnd.UseModel(verifPionPath+".ClientWithContext", verifModelPionClient)
	verifnd.UseModel(verifPionPath+".ServerWithContext", verifModelPionServer)
	verifnd.UseModel("(*"+verifPionPath+".Conn).ConnectionState", verifModelConnectionState)
	verifnd.UseModel("(*"+verifPionPath+".State).RemoteRandomBytes", verifModelRemoteRandom)
	verifnd.UseModel("github.com/refraction-networking/conjure/pkg/dtls.newCertificate", verifModelNewCertificate)
	verifnd.UseModel("github.com/refraction-networking/conjure/pkg/dtls.verifyCert", verifModelVerifyCert)
	verifnd.UseModel("github.com/refraction-networking/conjure/pkg/dtls.certsFromSeed", nil) // the real one, not the engine's summary
	verifStates = map[*pdtls.Conn]*pdtls.State{}
	verifWire = &verifInner{ch: make(chan net.Conn, 1), closed: make(chan struct{})}

	secrets := [][]byte{verifnd.Bytes("secret-a", 32), verifnd.Bytes("secret-b", 32), verifnd.Bytes("secret-u", 32)}
	// idealisation: distinct secrets, hence distinct derived credentials
	var ids [][28]byte
	var kms [][]byte
	for _, s := range secrets {
		id, err := clientHelloRandomFromSeed(s)
		cc, sc, err2 := certsFromSeed(s)
		if err != nil || err2 != nil {
			return
		}
		ids = append(ids, id)
		kms = append(kms, cc.Certificate[0], sc.Certificate[0])
	}
	for i := range ids {
		for j := 0; j < i; j++ {
			verifnd.Assume(!verifnd.BytesEq(ids[i][:], ids[j][:]))
		}
	}
	for i := range kms {
		for j := 0; j < i; j++ {
			verifnd.Assume(!verifnd.BytesEq(kms[i], kms[j]))
		}
	}

	if who >= 3 {
		verifC16NoListener(who, secrets, kms)
		return
	}
	authFails := 0
	l, err := NewListener(verifWire, &Config{LogAuthFail: func(*net.IP) { authFails++ }, LogOther: func(*net.IP) {}})
	if err != nil {
		return
	}
	type result struct {
		conn net.Conn
		err  error
		done bool
	}
	var resA, resB result
	ctxA, cancelA := context.WithCancel(context.Background())
	ctxB, cancelB := context.WithCancel(context.Background())
	var wg sync.WaitGroup
	wg.Add(1)
	go func() {
		defer wg.Done()
		resA.conn, resA.err = l.acceptDTLSConn(ctxA, &Config{PSK: secrets[0]})
		resA.done = true
	}()
	if withB {
		wg.Add(1)
		go func() {
			defer wg.Done()
			resB.conn, resB.err = l.acceptDTLSConn(ctxB, &Config{PSK: secrets[1]})
			resB.done = true
		}()
	}
	verifnd.Settle() // both acceptors are registered and wait
	verifnd.Assert(!resA.done && (!withB || !resB.done), "C16.creds.acceptors-wait")

	dctx, dcancel := context.WithTimeout(context.Background(), time.Minute)
	defer dcancel()
	cconn, cerr := dtlsCtx(dctx, verifNetConn{}, &Config{PSK: secrets[who]})
	verifnd.Settle()

	registered := who == 0 || (who == 1 && withB)
	if registered {
		verifnd.Assert(cerr == nil && cconn != nil, "C16.creds.same-secret-handshake-completes")
		winner, other := &resA, &resB
		if who == 1 {
			winner, other = &resB, &resA
		}
		verifnd.Assert(winner.done && winner.err == nil && winner.conn != nil, "C16.creds.connection-delivered-to-the-caller-waiting-for-that-secret")
		verifnd.Assert(!other.done, "C16.creds.connection-delivered-to-no-other-caller")
		verifnd.Reach("C16.creds.completed")
	} else {
		verifnd.Assert(cerr != nil, "C16.creds.handshake-fails-without-the-same-secret-on-both-ends")
		verifnd.Assert(!resA.done && !resB.done, "C16.creds.failed-handshake-delivers-nothing")
		verifnd.Assert(authFails > 0, "C16.creds.failed-handshake-is-counted")
		verifnd.Reach("C16.creds.refused")
	}
	cancelA()
	cancelB()
	wg.Wait()
	_ = l.Close()
	verifnd.Settle()
	verifnd.Assert(len(l.connMap) == 0 && len(l.connToCert) == 0, "C16.creds.nothing-left-registered")
	verifnd.Reach("C16.creds.done")
}

func verifC16NoListener(who int, secrets [][]byte, kms [][]byte) {
	verifnd.UseModel("github.com/refraction-networking/conjure/pkg/dtls.wrapSCTP", func(conn net.Conn, config *Config) (net.Conn, error) { return conn, nil })
	verifnd.UseModel("(*"+verifPionPath+".Conn).SetDeadline", func(c *pdtls.Conn, t time.Time) error { return nil })
	ctx, cancel := context.WithCancel(context.Background())
	defer cancel()
	var sconn net.Conn
	var serr error
	sdone := false
	var wg sync.WaitGroup
	wg.Add(1)
	go func() {
		defer wg.Done()
		c := <-verifWire.ch
		switch who {
		case 3:
			// an impostor: any certificate but the one derived from the secret, no client check
			own := verifnd.Bytes("impostor-certificate", 65)
			for _, km := range kms {
				verifnd.Assume(!verifnd.BytesEq(own, km))
			}
			sconn, serr = verifModelPionServerIface(ctx, c, &pdtls.Config{Certificates: []tls.Certificate{{Certificate: [][]byte{own}}}})
		case 4:
			sconn, serr = ServerWithContext(ctx, c, &Config{PSK: secrets[0]})
		default:
			sconn, serr = ServerWithContext(ctx, c, &Config{PSK: secrets[2]})
		}
		sdone = true
	}()
	cconn, cerr := dtlsCtx(ctx, verifNetConn{}, &Config{PSK: secrets[0]})
	wg.Wait()
	switch who {
	case 3:
		verifnd.Assert(cerr != nil, "C16.creds.dialling-side-refuses-a-server-without-the-secret")
		verifnd.Reach("C16.creds.impostor-refused")
	case 4:
		verifnd.Assert(cerr == nil && cconn != nil && sdone && serr == nil && sconn != nil, "C16.creds.server-same-secret-handshake-completes")
		verifnd.Reach("C16.creds.server-completed")
	default:
		verifnd.Assert(cerr != nil && serr != nil, "C16.creds.server-handshake-fails-without-the-same-secret")
		verifnd.Reach("C16.creds.server-refused")
	}
}

func verifModelPionServerIface(ctx context.Context, c net.Conn, scfg *pdtls.Config) (net.Conn, error) {
	conn, err := verifModelPionServer(ctx, c, scfg)
	if err != nil {
		return nil, err
	}
	return conn, nil
}

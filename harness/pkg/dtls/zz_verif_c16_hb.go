package dtls

import (
	"bytes"
	"io"
	"time"

	"github.com/refraction-networking/conjure/internal/verifnd"
)

// a message stream that delivers a fixed script of messages, then an error
type verifScriptStream struct {
	msgs   [][]byte
	pos    int
	end    error
	closed bool
}

func (s *verifScriptStream) Read(p []byte) (int, error) {
	if s.pos >= len(s.msgs) {
		return 0, s.end
	}
	m := s.msgs[s.pos]
	s.pos++
	if len(m) > len(p) {
		return 0, io.ErrShortBuffer
	}
	return copy(p, m), nil
}
func (s *verifScriptStream) Write(p []byte) (int, error)          { return len(p), nil }
func (s *verifScriptStream) Close() error                         { s.closed = true; return nil }
func (s *verifScriptStream) BufferedAmount() uint64               { return 0 }
func (s *verifScriptStream) SetReadDeadline(time.Time) error      { return nil }
func (s *verifScriptStream) SetBufferedAmountLowThreshold(uint64) {}
func (s *verifScriptStream) OnBufferedAmountLow(f func())         {}

// VerifC16Heartbeat: the accepting side's stack (heartbeat filter under the
// byte-stream adapter) on a peer that sends one message (thorough tier: up to two) - each a data
// message of 1-2 arbitrary bytes or a keep-alive heartbeat, in any order - and
// then ends the stream, read by a caller with 1-byte or ample buffers, under
// every interleaving of the receive loop and the reader (timeouts never elapse:
// a prompt reader and a live peer): the reader gets exactly the concatenation
// of the data messages, in order and complete, before it is told that the
// stream has ended; heartbeats never surface as data.
// verif:replay=native-then-model
// verif:shards=2
func VerifC16Heartbeat() {
	nmsg := 1 + verifnd.Choose("messages", 2) // sharded
	if nmsg == 2 && !verifnd.Thorough() {
		// bound (quick): one message (20 000 interleavings); two messages - half a million
		// interleavings and more - in the thorough tier; three did not finish
		return
	}
	hb := []byte("6v3jyM521GkBo1lsMyVLcRyzdZ7FKEM3")
	st := &verifScriptStream{end: io.EOF}
	var want []byte
	for i := 0; i < nmsg; i++ {
		if verifnd.Bool("heartbeat") {
			st.msgs = append(st.msgs, hb)
			continue
		}
		m := verifnd.Bytes("data", 1+verifnd.Choose("data-len", 2))
		st.msgs = append(st.msgs, m)
		want = append(want, m...)
	}
	rounds := 1
	if !verifnd.Symbolic() {
		rounds = 2000 // native replay cannot force the schedule: repeat until the loss shows
	}
	bufLen := []int{1, 64}[verifnd.Choose("reader-buffer", 2)]
	for r := 0; r < rounds; r++ {
		st.pos, st.closed = 0, false
		h, err := heartbeatServer(st, nil, 64)
		if err != nil {
			return
		}
		c := newSCTPConn(h, verifNetConn{}, 64)
		var got []byte
		var rerr error
		for i := 0; i < 16; i++ {
			buf := make([]byte, bufLen)
			n, e := c.Read(buf)
			got = append(got, buf[:n]...)
			if e != nil {
				rerr = e
				break
			}
		}
		_ = c.Close()
		if rounds > 1 && bytes.Equal(got, want) && rerr != nil {
			continue
		}
		verifnd.Assert(rerr != nil, "C16.hb.end-of-stream-is-reported")
		verifnd.Assert(len(got) <= len(want) && verifnd.BytesEq(got, want[:len(got)]), "C16.hb.only-the-peer's-data-in-order")
		verifnd.Assert(len(got) == len(want), "C16.hb.all-data-before-the-end-of-stream")
		break
	}
	verifnd.Settle()
	verifnd.Reach("C16.hb.done")
}

package dtls

import (
	"time"

	"github.com/refraction-networking/conjure/internal/verifnd"
)

// ---- a message stream with a send queue (the contract of pion's sctp.Stream
// that SCTPConn relies on: Write queues the whole message; BufferedAmount is
// the queue length; the low-water callback runs when the queue falls from above
// the threshold to or below it) ----

type verifQueueStream struct {
	queued    uint64
	threshold uint64
	low       func()
	maxSeen   uint64
	lens      []int // length of every message accepted by Write, in order
	closed    bool
}

func (s *verifQueueStream) Read([]byte) (int, error) { return 0, nil }
func (s *verifQueueStream) Write(p []byte) (int, error) {
	s.queued += uint64(len(p))
	if s.queued > s.maxSeen {
		s.maxSeen = s.queued
	}
	s.lens = append(s.lens, len(p))
	return len(p), nil
}
func (s *verifQueueStream) Close() error                            { s.closed = true; return nil }
func (s *verifQueueStream) BufferedAmount() uint64                  { return s.queued }
func (s *verifQueueStream) SetReadDeadline(time.Time) error         { return nil }
func (s *verifQueueStream) SetBufferedAmountLowThreshold(th uint64) { s.threshold = th }
func (s *verifQueueStream) OnBufferedAmountLow(f func())            { s.low = f }

// the network takes n bytes off the queue
func (s *verifQueueStream) drain(n uint64) {
	old := s.queued
	if n > old {
		n = old
	}
	s.queued -= n
	if old > s.threshold && s.queued <= s.threshold && s.low != nil {
		s.low()
	}
}

// VerifC16SCTPWrite: the writer side of the SCTP stream adapter against a send
// queue that the network drains whenever the writer waits or has finished, by 64 KiB,
// 128 KiB or everything, starting from an arbitrary queue
// level, with a possibly stale low-water signal left over: a writer issuing up
// to four writes of 0 / 1 / 64 KiB / 128 KiB / 128 KiB+1 bytes.  The queue never
// exceeds the limit by more than one message (limit + limit/2); a message above
// half the limit is refused, an empty one is a no-op, everything else reaches the
// stream whole and in order; a writer that has to wait is released by the
// low-water signal once the network has drained enough, or by Close with an
// error; nothing is left blocked when the network has drained everything.
// verif:shards=3
func VerifC16SCTPWrite() {
	verifnd.Sequential()                  // the writer runs until it blocks or finishes; the network acts at those points
	ending := verifnd.Choose("ending", 3) // sharded: network drains everything / the connection is closed / both
	st := &verifQueueStream{}
	c := newSCTPConn(st, verifNetConn{}, 16)
	verifnd.Assert(st.threshold == writeMaxBufferedAmount/2 && st.low != nil, "C16.write.low-water-mark-registered")
	unit := writeMaxBufferedAmount / 4 // 64 KiB
	st.queued = unit * uint64(verifnd.Choose("initial-queue", 5))
	st.maxSeen = st.queued
	if verifnd.Bool("stale-signal") {
		st.low() // a low-water event that found nobody waiting
	}
	sizes := []int{0, 1, int(unit), int(2 * unit), int(2*unit) + 1}
	nw := 1 + verifnd.Choose("writes", 3)
	if verifnd.Thorough() {
		nw = 1 + verifnd.Choose("writes-thorough", 4)
	}
	var want []int
	results := make(chan error, 8)
	done := make(chan struct{})
	go func() {
		defer close(done)
		for i := 0; i < nw; i++ {
			var n int
			if i == 0 {
				n = sizes[verifnd.Choose("first-size", len(sizes))]
			} else {
				n = sizes[1+verifnd.Choose("size", 3)] // (the degenerate sizes are tried as the first write)
			}
			got, err := c.Write(make([]byte, n))
			switch {
			case n == 0:
				verifnd.Assert(got == 0 && err == nil, "C16.write.empty-is-a-no-op")
			case uint64(n) > writeMaxBufferedAmount/2:
				verifnd.Assert(got == 0 && err != nil, "C16.write.oversized-message-refused")
			case err == nil:
				verifnd.Assert(got == n, "C16.write.whole-message-or-error")
				want = append(want, n)
			default:
				results <- err
				return
			}
		}
	}()
	verifnd.Settle()
	// the network: up to four drain steps at whatever point the writer has got to
	for i := 0; i < 3 && st.queued > 0; i++ {
		if ending == 1 && verifnd.Bool("close-now") {
			break
		}
		st.drain(unit * uint64([]int{1, 2, 6}[verifnd.Choose("drain-units", 3)]))
		verifnd.Settle()
	}
	if ending >= 1 {
		_ = c.Close()
		verifnd.Settle()
	} else {
		st.drain(st.queued)
		verifnd.Settle()
		st.drain(st.queued)
		verifnd.Settle()
		st.drain(st.queued)
		verifnd.Settle()
		st.drain(st.queued)
		verifnd.Settle()
	}
	select {
	case <-done:
	default:
		verifnd.Assert(false, "C16.write.writer-is-released")
	}
	verifnd.Assert(st.maxSeen <= writeMaxBufferedAmount+writeMaxBufferedAmount/2, "C16.write.queue-stays-bounded")
	ok := len(st.lens) == len(want)
	for i := 0; ok && i < len(want); i++ {
		ok = st.lens[i] == want[i]
	}
	verifnd.Assert(ok, "C16.write.accepted-messages-reach-the-stream-whole-and-in-order")
	select {
	case err := <-results:
		verifnd.Assert(ending >= 1 && err != nil, "C16.write.error-only-after-close")
		verifnd.Reach("C16.write.released-by-close")
	default:
	}
	verifnd.Reach("C16.write.done")
}

// a send queue whose Write takes time: the message is counted only after a scheduling point, so
// that another goroutine can look at BufferedAmount in between (pion's stream.Write packetises
// under its own lock before the bytes show up in the buffered amount)
type verifSlowQueueStream struct{ verifQueueStream }

func (s *verifSlowQueueStream) Write(p []byte) (int, error) {
	verifnd.Yield()
	return s.verifQueueStream.Write(p)
}

// VerifC16ConcurrentWriters: two goroutines writing to the same connection at once (1 byte,
// 64 KiB or 128 KiB each, one or two messages each), the queue starting at an arbitrary level with a
// possibly stale low-water signal, the stream's own Write taking time (a scheduling point before
// the message is counted), under every interleaving of the two writers at the lock, the wake-up
// channel and the stream write; the network drains everything once both are blocked or done.
// The queue never exceeds the limit by more than one message plus one stale wake-up
// (limit + limit/2 - the same bound as for a single writer); both writers are released.
// verif:replay=native-then-model
func VerifC16ConcurrentWriters() {
	st := &verifSlowQueueStream{}
	c := newSCTPConn(st, verifNetConn{}, 16)
	unit := writeMaxBufferedAmount / 4 // 64 KiB
	st.queued = unit * uint64(verifnd.Choose("initial-queue", 5))
	st.maxSeen = st.queued
	if verifnd.Bool("stale-signal") {
		st.low()
	}
	sizes := []int{1, int(unit), int(2 * unit)}
	per := 1 + verifnd.Choose("messages-per-writer", 2)
	rounds := 1
	if !verifnd.Symbolic() {
		rounds = 300 // native replay cannot force the schedule
	}
	szA := sizes[verifnd.Choose("size-a", len(sizes))]
	szB := sizes[verifnd.Choose("size-b", len(sizes))]
	init, stale := st.queued, len(c.write)
	for r := 0; r < rounds; r++ {
		if r > 0 {
			st = &verifSlowQueueStream{}
			c = newSCTPConn(st, verifNetConn{}, 16)
			st.queued, st.maxSeen = init, init
			if stale > 0 {
				st.low()
			}
		}
		doneA, doneB := make(chan struct{}), make(chan struct{})
		writer := func(n int, done chan struct{}) {
			defer close(done)
			for i := 0; i < per; i++ {
				if _, err := c.Write(make([]byte, n)); err != nil {
					return
				}
			}
		}
		go writer(szA, doneA)
		go writer(szB, doneB)
		verifnd.Quiesce() // every interleaving of the two writers up to the point where both are blocked or done
		for i := 0; i < 6; i++ {
			st.drain(st.queued)
			verifnd.Settle()
		}
		released := true
		for _, d := range []chan struct{}{doneA, doneB} {
			if verifnd.Symbolic() {
				select {
				case <-d:
				default:
					released = false
				}
			} else {
				select {
				case <-d:
				case <-time.After(2 * time.Second):
					released = false
				}
			}
		}
		bounded := st.maxSeen <= writeMaxBufferedAmount+writeMaxBufferedAmount/2
		if rounds > 1 && r < rounds-1 && released && bounded {
			continue
		}
		verifnd.Assert(released, "C16.writers.both-released-once-the-network-drained")
		verifnd.Assert(bounded, "C16.writers.queue-stays-bounded-with-concurrent-writers")
		break
	}
	verifnd.Reach("C16.writers.done")
}

package dtls

import (
	"context"
	"io"
	"net"
	"sync"
	"time"

	"github.com/refraction-networking/conjure/internal/verifnd"
)

// ---- scripted message stream ----

type verifMsg struct {
	n   int
	err error
}

type verifStream struct {
	msgs     []verifMsg
	pos      int
	all      []byte // every byte delivered by Read, in order
	buffered uint64
	writes   int
	closed   bool
	lowCb    func()
}

func (s *verifStream) Read(p []byte) (int, error) {
	if s.pos >= len(s.msgs) {
		return 0, io.EOF
	}
	m := s.msgs[s.pos]
	s.pos++
	if m.n > len(p) {
		return 0, io.ErrShortBuffer // a message stream refuses a buffer smaller than the message
	}
	data := verifnd.Bytes("msg", m.n)
	copy(p, data)
	s.all = append(s.all, data...)
	return m.n, m.err
}
func (s *verifStream) Write(p []byte) (int, error)          { s.writes++; return len(p), nil }
func (s *verifStream) Close() error                         { s.closed = true; return nil }
func (s *verifStream) BufferedAmount() uint64               { return s.buffered }
func (s *verifStream) SetReadDeadline(time.Time) error      { return nil }
func (s *verifStream) SetBufferedAmountLowThreshold(uint64) {}
func (s *verifStream) OnBufferedAmountLow(f func())         { s.lowCb = f }

type verifNetConn struct{ net.Conn }

func (verifNetConn) Close() error { return nil }

// VerifC16SCTPRead: the byte-stream view over the message stream: every
// sequence of up to three messages (0..max bytes each, the last possibly with
// an error) against every sequence of up to five caller buffer sizes (1 byte to
// beyond the maximum message size): reads return the concatenation of the
// messages, never reordered; an error is reported only by the call that hands
// out the last byte of the message it came with; offsets stay within bounds.
// verif:shards=9
func VerifC16SCTPRead() {
	verifnd.Sequential()
	k := verifnd.Choose("case", 9) // sharded: max message size x number of messages
	max := 2 + k%3
	nmsgs := 1 + k/3
	st := &verifStream{}
	total := 0
	for i := 0; i < nmsgs; i++ {
		m := verifMsg{n: verifnd.Choose("len", max+1)}
		if i == nmsgs-1 && verifnd.Bool("last-comes-with-error") {
			m.err = io.ErrUnexpectedEOF
		}
		st.msgs = append(st.msgs, m)
		total += m.n
	}
	c := newSCTPConn(st, verifNetConn{}, uint64(max))
	var got []byte
	sizes := []int{1, 2, max - 1, max, max + 1}
	reads := 4
	if verifnd.Thorough() {
		reads = 6
	}
	sawErr := false
	for r := 0; r < reads && !sawErr; r++ {
		sz := sizes[verifnd.Choose("buf", len(sizes))]
		if sz < 1 {
			sz = 1
		}
		buf := make([]byte, sz)
		n, err := c.Read(buf)
		verifnd.Assert(n >= 0 && n <= sz, "C16.read.count-within-buffer")
		got = append(got, buf[:n]...)
		verifnd.Assert(c.readOffset >= 0 && c.readOffset <= c.readLength && c.readLength <= max, "C16.read.offsets-within-bounds")
		// what has been returned so far is a prefix of what the stream delivered, in order
		verifnd.Assert(len(got) <= len(st.all) && verifnd.BytesEq(got, st.all[:len(got)]), "C16.read.returns-the-concatenation-of-messages")
		if err != nil {
			sawErr = true
			// an error surfaces only together with (or after) the last byte that came with it
			verifnd.Assert(len(got) == len(st.all), "C16.read.error-only-after-the-data-it-came-with")
			verifnd.Reach("C16.read.error-reported")
		}
	}
	verifnd.Reach("C16.read.done")
}

// ---- listener registration / routing ----

// VerifC16Listener: several acceptors on the shared listener (distinct, equal
// and unregistered secrets), connections arriving in any order, cancellation:
// a connection is handed only to the acceptor registered under its
// hello-random; a second accept with a secret already waiting fails and does
// not disturb the first; after everybody returned nothing is registered.
// verif:shards=4
func VerifC16Listener() {
	verifnd.Sequential()           // the scenario is ordered by Settle points; see bounds
	k := verifnd.Choose("case", 4) // sharded
	sameSecret := k%2 == 1
	cancelFirst := k/2 == 1
	l := &Listener{
		connMap:    map[[28]byte](chan net.Conn){},
		connToCert: map[[28]byte]*certPair{},
		closed:     make(chan struct{}),
	}
	secretA := []byte("secret-A-0123456789abcdef0123456")
	secretB := []byte("secret-B-0123456789abcdef0123456")
	if sameSecret {
		secretB = secretA
	}
	idA, _ := clientHelloRandomFromSeed(secretA)
	type result struct {
		conn net.Conn
		err  error
		done bool
	}
	var resA, resB result
	ctxA, cancelA := context.WithCancel(context.Background())
	ctxB, cancelB := context.WithCancel(context.Background())
	defer cancelB()
	var wg sync.WaitGroup
	wg.Add(1)
	go func() {
		defer wg.Done()
		resA.conn, resA.err = l.acceptDTLSConn(ctxA, &Config{PSK: secretA})
		resA.done = true
	}()
	verifnd.Settle() // A is registered and waits
	verifnd.Assert(!resA.done && l.connMap[idA] != nil && l.connToCert[idA] != nil, "C16.listener.acceptor-registered-while-waiting")
	wg.Add(1)
	go func() {
		defer wg.Done()
		resB.conn, resB.err = l.acceptDTLSConn(ctxB, &Config{PSK: secretB})
		resB.done = true
	}()
	verifnd.Settle()
	if sameSecret {
		// B must be refused, and A must still be fully registered while it waits
		verifnd.Assert(resB.done && resB.err != nil, "C16.listener.duplicate-secret-refused")
		verifnd.Assert(l.connToCert[idA] != nil && l.connMap[idA] != nil, "C16.listener.refused-duplicate-does-not-disturb-the-first-acceptor")
	} else {
		verifnd.Assert(!resB.done, "C16.listener.second-acceptor-waits")
	}
	// a handshake completed with A's hello-random: route it the way acceptLoop does
	connForA := verifNetConn{}
	if cancelFirst {
		cancelA()
	} else {
		ch, err := l.chFromID(idA)
		verifnd.Assert(err == nil, "C16.listener.registered-connection-is-routed")
		if err == nil {
			select {
			case ch <- connForA:
			case <-ctxA.Done():
			}
		}
	}
	// an unregistered hello-random is not routed anywhere
	var unknown [28]byte
	_, uerr := l.chFromID(unknown)
	verifnd.Assert(uerr != nil, "C16.listener.unregistered-connection-not-routed")
	verifnd.Settle()
	verifnd.Assert(resA.done, "C16.listener.acceptor-returns")
	cancelB()
	wg.Wait()
	if cancelFirst {
		verifnd.Assert(resA.err != nil && resA.conn == nil, "C16.listener.cancelled-accept-returns-error")
	} else {
		verifnd.Assert(resA.err == nil && resA.conn == net.Conn(connForA), "C16.listener.connection-delivered-to-its-acceptor")
	}
	verifnd.Assert(resB.conn == nil, "C16.listener.connection-not-delivered-to-another-acceptor")
	verifnd.Assert(len(l.connMap) == 0 && len(l.connToCert) == 0, "C16.listener.nothing-left-registered")
	verifnd.Reach("C16.listener.done")
}

package dtls

import (
	"net"
	"os"
	"sync"
	"time"

	"github.com/refraction-networking/conjure/internal/verifnd"
)

// a peer with timing: message i arrives gaps[i] after the previous Read was entered; after the
// script the peer is silent.  Read honours the read deadline the way a pion stream does (an
// error at the deadline) and returns an error once the stream is closed.
type verifTimedStream struct {
	gaps     []time.Duration
	msgs     [][]byte
	isHB     []bool
	pos      int
	deadline time.Time
	closedCh chan struct{}
	once     sync.Once
	mu       sync.Mutex
	closedAt time.Time
	lastHB   time.Time
	given    []byte // data messages handed to the receive loop
}

func (s *verifTimedStream) Read(p []byte) (int, error) {
	var arrive <-chan time.Time
	if s.pos < len(s.msgs) {
		tm := time.NewTimer(s.gaps[s.pos])
		defer tm.Stop()
		arrive = tm.C
	}
	var dl <-chan time.Time
	if !s.deadline.IsZero() {
		d := time.NewTimer(time.Until(s.deadline))
		defer d.Stop()
		dl = d.C
	}
	select {
	case <-s.closedCh:
		return 0, net.ErrClosed
	case <-arrive:
		m := s.msgs[s.pos]
		s.mu.Lock()
		if s.isHB[s.pos] {
			s.lastHB = time.Now()
		} else {
			s.given = append(s.given, m...)
		}
		s.mu.Unlock()
		s.pos++
		return copy(p, m), nil
	case <-dl:
		return 0, os.ErrDeadlineExceeded
	}
}
func (s *verifTimedStream) Write(p []byte) (int, error) { return len(p), nil }
func (s *verifTimedStream) Close() error {
	s.once.Do(func() {
		s.mu.Lock()
		s.closedAt = time.Now()
		s.mu.Unlock()
		close(s.closedCh)
	})
	return nil
}
func (s *verifTimedStream) BufferedAmount() uint64               { return 0 }
func (s *verifTimedStream) SetReadDeadline(t time.Time) error    { s.deadline = t; return nil }
func (s *verifTimedStream) SetBufferedAmountLowThreshold(uint64) {}
func (s *verifTimedStream) OnBufferedAmountLow(f func())         {}

// VerifC16Watchdog: the accepting side's heartbeat filter with timers that fire (discrete-event
// clock: time advances only when every goroutine is blocked, to the earliest pending timer).  The
// peer sends up to three (thorough: four) messages - each a keep-alive heartbeat or a data
// message - each an arbitrary time below one heartbeat interval after the previous one (symbolic,
// nanosecond resolution; the order of arrivals and watchdog ticks is decided by the solver), and
// then falls silent; a prompt reader drains the connection.  Obligations:
// the connection is closed by the watchdog (the reader is told, the stream is closed) no later than
// two intervals after the last heartbeat (or after the start when there was none) - also when the
// peer keeps sending data but no heartbeats; it is not closed while the last heartbeat is less than
// one interval old; every data message the stream delivered before the close reaches the reader,
// once and in order, and heartbeats never do.
// Scheduling: run-to-block (no pre-emption between blocking points).
// Outside: a timer expiring while a goroutine could still run (slow reader / slow receive loop).
// verif:replay=native-then-model
// verif:shards=3
func VerifC16Watchdog() {
	T := 200 * time.Millisecond
	slack := time.Duration(0)
	if !verifnd.Symbolic() {
		slack = T / 3
	}
	nmax := 3
	if verifnd.Thorough() {
		nmax = 4
	}
	n := verifnd.Choose("messages", nmax+1) // sharded
	hb := []byte("6v3jyM521GkBo1lsMyVLcRyzdZ7FKEM3")
	st := &verifTimedStream{closedCh: make(chan struct{})}
	for i := 0; i < n; i++ {
		// an arbitrary gap below one interval (nanosecond resolution, symbolic): which of the
		// peer's messages and the watchdog's ticks comes first is decided by the solver
		lo := 1
		if i == 0 {
			lo = 0
		}
		st.gaps = append(st.gaps, time.Duration(verifnd.Range("gap-ns", lo, int(T)-1)))
		if verifnd.Choose("heartbeat", 2) == 1 {
			st.msgs = append(st.msgs, hb)
			st.isHB = append(st.isHB, true)
		} else {
			st.msgs = append(st.msgs, verifnd.Bytes("data", 1))
			st.isHB = append(st.isHB, false)
		}
	}
	verifnd.Sequential() // run-to-block: the dimension explored here is timing, not pre-emption (VerifC16Heartbeat does that)
	verifnd.TimersFire()
	start := time.Now()
	h, err := heartbeatServer(st, &heartbeatConfig{Interval: T, Heartbeat: hb}, 64)
	if err != nil {
		return
	}
	var got []byte
	done := make(chan struct{})
	go func() {
		defer close(done)
		for i := 0; i < 16; i++ {
			buf := make([]byte, 64)
			k, e := h.Read(buf)
			got = append(got, buf[:k]...)
			if e != nil {
				return
			}
		}
	}()
	select {
	case <-done:
	case <-time.After(12 * T):
		verifnd.Assert(false, "C16.watchdog.closes-when-heartbeats-stop")
		return
	}
	select {
	case <-st.closedCh: // Close tells the reader first and closes the stream next
	case <-time.After(12 * T):
		verifnd.Assert(false, "C16.watchdog.stream-closed-when-the-reader-is-told")
		return
	}
	st.mu.Lock()
	closedAt, lastHB, given := st.closedAt, st.lastHB, st.given
	st.mu.Unlock()
	ref := start
	if !lastHB.IsZero() {
		ref = lastHB
	}
	verifnd.Assert(closedAt.Sub(ref) <= 2*T+slack, "C16.watchdog.closed-within-two-intervals-of-the-last-heartbeat")
	verifnd.Assert(closedAt.Sub(ref) >= T-slack, "C16.watchdog.live-peer-is-not-cut-off")
	verifnd.Assert(len(got) == len(given) && verifnd.BytesEq(got, given), "C16.watchdog.delivered-data-reaches-the-reader")
	if !lastHB.IsZero() {
		verifnd.Reach("C16.watchdog.closed-after-heartbeats")
	}
	verifnd.Reach("C16.watchdog.done")
}

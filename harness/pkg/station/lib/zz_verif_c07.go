package lib

import (
	"net"

	"github.com/refraction-networking/conjure/internal/verifnd"
	"github.com/refraction-networking/conjure/pkg/phantoms"
	"github.com/refraction-networking/conjure/pkg/station/geoip"
	"github.com/refraction-networking/conjure/pkg/station/liveness"
	"github.com/refraction-networking/conjure/pkg/station/log"
	pb "github.com/refraction-networking/conjure/proto"
	"google.golang.org/protobuf/proto"
)

// scripted liveness tester: records probes, answers with a symbolic verdict
type verifLiveness struct {
	calls   []string
	verdict bool
}

func (l *verifLiveness) PhantomIsLive(addr string, port uint16) (bool, error) {
	l.calls = append(l.calls, addr)
	// the verdict comes with any of the errors the real testers attach to it
	switch verifnd.Choose("probe-error", 3) {
	case 0:
		if l.verdict {
			return true, liveness.ErrLiveHost
		}
		return false, liveness.NotLive
	case 1:
		return l.verdict, liveness.ErrCachedPhantom
	}
	return l.verdict, nil
}
func (l *verifLiveness) PrintAndReset(logger *log.Logger) {}
func (l *verifLiveness) PrintStats(logger *log.Logger)    {}
func (l *verifLiveness) Reset()                           {}

func verifManager(lt *verifLiveness, ann *[]verifAnnouncement) *RegistrationManager {
	w := uint32(1)
	sel := &phantoms.PhantomIPSelector{Networks: map[uint]*phantoms.SubnetConfig{
		1: {WeightedSubnets: []*pb.PhantomSubnets{{Weight: &w, Subnets: []string{"192.0.2.0/24", "2001:db8::/64"}}}},
	}}
	conf := &RegConfig{
		PhantomBlocklist:       []string{"192.0.2.128/25", "2001:db8:0:0:8000::/65"},
		CovertBlocklistSubnets: []string{"10.0.0.0/8"},
		PreshareEndpoint:       "http://peer.example/register",
	}
	conf.ParseBlocklists()
	return &RegistrationManager{
		RegConfig:         conf,
		RegistrationStats: newRegistrationStats(),
		Logger:            verifLogger(),
		registeredDecoys:  verifRegistry(ann),
		PhantomSelector:   sel,
		LivenessTester:    lt,
		GeoIP:             &geoip.EmptyDatabase{},
	}
}

const (
	verifCovertOK      = "192.0.2.99:443"
	verifCovertBlocked = "10.1.2.3:443"
)

type verifMsg struct {
	hasPayload       bool
	v4, v6           bool
	transport        pb.TransportType
	gen              uint32
	covert           string
	prescanned       int // 0 absent, 1 false, 2 true
	source           int // 0 absent, 1 API, 2 Detector, 3 DetectorPrescan
	registrant       int // 0 absent, 1 IPv4, 2 IPv6
	secret           []byte
	wrapper          *pb.C2SWrapper
	transportEnabled bool
	genKnown         bool
	covertOK         bool
	sourceDetector   bool
	registrantV4     bool
	isPrescanned     bool
}

// verifDims: number of values per message dimension (value 0 = the base value
// of an acceptable, locally detected, dual-stack registration).
var verifDims = []int{2, 2, 2, 4, 2, 3, 3, 4, 3}

func verifBuildMsg(secret []byte, vals []int) *verifMsg {
	m := &verifMsg{secret: secret}
	m.hasPayload = vals[0] == 0
	m.v4, m.v6 = vals[1] == 0, vals[2] == 0
	m.transport = []pb.TransportType{pb.TransportType_Min, pb.TransportType_Prefix, pb.TransportType_Obfs4, pb.TransportType(77)}[vals[3]]
	m.transportEnabled = m.transport == pb.TransportType_Min || m.transport == pb.TransportType_Prefix
	m.gen = []uint32{1, 7}[vals[4]]
	m.genKnown = m.gen == 1
	m.covert = []string{verifCovertOK, verifCovertBlocked, "not an address"}[vals[5]]
	m.covertOK = m.covert == verifCovertOK
	m.prescanned = vals[6]
	m.isPrescanned = m.prescanned == 2
	m.source = []int{2, 1, 3, 0}[vals[7]] // base: Detector
	m.sourceDetector = m.source == 2
	m.registrant = []int{1, 2, 0}[vals[8]] // base: IPv4 registrant
	m.registrantV4 = m.registrant == 1
	w := &pb.C2SWrapper{SharedSecret: secret}
	if m.hasPayload {
		c2s := &pb.ClientToStation{
			V4Support:           &m.v4,
			V6Support:           &m.v6,
			Transport:           &m.transport,
			DecoyListGeneration: &m.gen,
			ClientLibVersion:    proto.Uint32(4),
			CovertAddress:       &m.covert,
		}
		switch m.prescanned {
		case 1:
			c2s.Flags = &pb.RegistrationFlags{Prescanned: proto.Bool(false)}
		case 2:
			c2s.Flags = &pb.RegistrationFlags{Prescanned: proto.Bool(true)}
		}
		w.RegistrationPayload = c2s
	}
	switch m.source {
	case 1:
		w.RegistrationSource = pb.RegistrationSource_API.Enum()
	case 2:
		w.RegistrationSource = pb.RegistrationSource_Detector.Enum()
	case 3:
		w.RegistrationSource = pb.RegistrationSource_DetectorPrescan.Enum()
	}
	switch m.registrant {
	case 1:
		w.RegistrationAddress = net.ParseIP("203.0.113.5").To4()
	case 2:
		w.RegistrationAddress = net.ParseIP("2001:db8:ffff::5")
	}
	m.wrapper = w
	return m
}

// VerifC07Admission: one registration message with every combination of
// present/absent/invalid fields, station configuration bits, liveness verdict:
// a family's registration is connectable and announced iff every admission
// condition of the property statement holds; the probe is sent iff required;
// sharing happens at most once, only for locally detected registrations, only
// after the probe passed, marked pre-scanned.
// verif:shards=16
func VerifC07Admission() {
	verifnd.Sequential()
	k := verifnd.Choose("station", 16) // sharded: enable flags x share x liveness verdict (0 = all enabled, not live)
	lt := &verifLiveness{verdict: k&8 != 0}
	var ann []verifAnnouncement
	rm := verifManager(lt, &ann)
	rm.EnableIPv4, rm.EnableIPv6, rm.EnableShareOverAPI = k&1 == 0, k&2 == 0, k&4 == 0
	verifnd.LoopBound("crypto/rand.Int", 2)
	vals := make([]int, len(verifDims))
	if verifnd.Thorough() {
		// the full decision table
		for i, n := range verifDims {
			vals[i] = verifnd.Choose("dim", n)
		}
	} else {
		// bound (quick): every deviation of at most two message dimensions from the base message
		for d := 0; d < 2; d++ {
			i := verifnd.Choose("deviate", len(verifDims)+1)
			if i < len(verifDims) && verifDims[i] > 1 {
				vals[i] = 1 + verifnd.Choose("value", verifDims[i]-1)
			}
		}
	}
	m := verifBuildMsg(verifnd.Bytes("secret", 32), vals)
	raw, err := proto.Marshal(m.wrapper)
	verifnd.Assert(err == nil, "C07.marshal")
	regs, perr := rm.parseRegMessage(raw)
	for _, r := range regs {
		rm.ingestRegistration(r)
	}
	verifnd.Settle()

	// ---- expectation, written from the property statement ----
	try4 := m.hasPayload && m.v4 && rm.EnableIPv4 && m.registrantV4
	try6 := m.hasPayload && m.v6 && rm.EnableIPv6
	buildOK := m.transportEnabled && m.genKnown
	made4 := try4 && buildOK
	made6 := try6 && buildOK && !(try4 && !buildOK)
	verifnd.Assert((perr != nil) == ((try4 || try6) && !buildOK), "C07.parse-error-iff-unbuildable")
	n := 0
	if made4 {
		n++
	}
	if made6 {
		n++
	}
	verifnd.Assert(len(regs) == n, "C07.registrations-created-per-enabled-family")
	shares := verifnd.HTTPPosts()
	probes4 := 0
	for _, r := range regs {
		is4 := r.PhantomIp.To4() != nil
		blocked := rm.IsBlocklistedPhantom(r.PhantomIp)
		needProbe := is4 && !m.isPrescanned
		// conditions checked before the probe
		pre := m.covertOK && (m.sourceDetector || !blocked)
		admitted := pre && !blocked && (!needProbe || !lt.verdict)
		_, found := rm.GetRegistrations(r.PhantomIp)[rm.registeredDecoys.transports[r.Transport].GetIdentifier(r)]
		verifnd.Assert(found == admitted, "C07.connectable-iff-all-conditions")
		announced := 0
		for _, a := range ann {
			if a.reg == r && a.op == pb.StationOperations_New {
				announced++
			}
		}
		if admitted {
			verifnd.Assert(announced == 1, "C07.announced-iff-admitted")
			verifnd.Assert(r.Covert == verifCovertOK, "C07.admitted-covert-is-the-checked-literal")
			verifnd.Reach("C07.admitted")
		} else {
			verifnd.Assert(announced == 0, "C07.announced-iff-admitted")
			verifnd.Reach("C07.refused")
		}
		if is4 {
			if needProbe && pre {
				probes4 = 1
			}
		}
	}
	verifnd.Assert(len(lt.calls) == probes4, "C07.probe-sent-iff-required")
	// sharing: at most once per message, only Detector source, only after a passed probe (or none needed)
	wantShare := 0
	for _, r := range regs {
		is4 := r.PhantomIp.To4() != nil
		blocked := rm.IsBlocklistedPhantom(r.PhantomIp)
		_ = blocked
		passed := m.covertOK && (!(is4 && !m.isPrescanned) || !lt.verdict)
		twin := !is4 && m.v4 // the IPv6 twin of a dual-stack message never shares
		if m.sourceDetector && rm.EnableShareOverAPI && passed && !twin {
			wantShare++
		}
	}
	verifnd.Assert(shares >= 0 && shares <= 1, "C07.shared-at-most-once")
	verifnd.Assert(shares == wantShare || shares < 0, "C07.shared-iff-detector-source-and-probe-passed")
	if shares == 1 {
		sw := &pb.C2SWrapper{}
		verifnd.Assert(proto.Unmarshal(verifnd.HTTPPostBody(0), sw) == nil &&
			sw.GetRegistrationSource() == pb.RegistrationSource_DetectorPrescan &&
			sw.GetRegistrationPayload().GetFlags().GetPrescanned(), "C07.shared-copy-is-marked-prescanned")
		verifnd.Reach("C07.shared")
	}
	verifnd.Reach("C07.done")
}

// VerifC07DuplicateKeepsCheckedCovert: a second message with the same secret
// and a covert the policy forbids never replaces the covert of the admitted
// registration (the address that was checked is the address that is dialled).
func VerifC07DuplicateKeepsCheckedCovert() {
	verifnd.Sequential()
	lt := &verifLiveness{}
	var ann []verifAnnouncement
	rm := verifManager(lt, &ann)
	rm.EnableIPv4, rm.EnableIPv6 = true, true
	verifnd.LoopBound("crypto/rand.Int", 2)
	secret := verifnd.Bytes("secret", 32)
	mk := func(covert string) []byte {
		tt := pb.TransportType_Min
		w := &pb.C2SWrapper{SharedSecret: secret, RegistrationSource: pb.RegistrationSource_API.Enum(),
			RegistrationAddress: net.ParseIP("203.0.113.5").To4(),
			RegistrationPayload: &pb.ClientToStation{V4Support: proto.Bool(true), V6Support: proto.Bool(verifnd.Bool("v6")),
				Transport: &tt, DecoyListGeneration: proto.Uint32(1), ClientLibVersion: proto.Uint32(4), CovertAddress: &covert,
				Flags: &pb.RegistrationFlags{Prescanned: proto.Bool(true)}}}
		b, _ := proto.Marshal(w)
		return b
	}
	for _, covert := range []string{verifCovertOK, verifCovertBlocked} {
		regs, err := rm.parseRegMessage(mk(covert))
		verifnd.Assert(err == nil, "C07.dup.parse")
		for _, r := range regs {
			rm.ingestRegistration(r)
		}
	}
	verifnd.Settle()
	for _, regs := range rm.registeredDecoys.decoys {
		for _, r := range regs {
			if r.Valid {
				verifnd.Assert(r.Covert == verifCovertOK, "C07.dup.valid-registration-keeps-checked-covert")
				verifnd.Reach("C07.dup.valid")
			}
		}
	}
	verifnd.Assert(len(ann) <= 2, "C07.dup.announced-once-per-family")
}

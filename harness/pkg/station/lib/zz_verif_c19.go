package lib

import (
	"github.com/refraction-networking/conjure/internal/verifnd"
	"github.com/refraction-networking/conjure/pkg/station/geoip"
)

var verifEntries = []string{"10.0.0.0/8", "fc00::/7", "fc00::/7 ", "fe80::0/16", "10.0.0.0", "garbage/33", ""}

func verifParsable(s string) bool { return s == "10.0.0.0/8" || s == "fc00::/7" || s == "fe80::0/16" }

func verifList(tag string, max int) ([]string, bool) {
	n := verifnd.Choose(tag+".entries", max+1)
	var out []string
	bad := false
	for i := 0; i < n; i++ {
		e := verifEntries[verifnd.Choose(tag+".entry", len(verifEntries))]
		out = append(out, e)
		bad = bad || !verifParsable(e)
	}
	return out, bad
}

// verifParseBlocklists calls ParseBlocklists whether or not it reports errors
// (the method had no result before the repair of finding C19-F1).
func verifParseBlocklists(c *RegConfig) error {
	var x interface{} = c
	if f, ok := x.(interface{ ParseBlocklists() error }); ok {
		return f.ParseBlocklists()
	}
	if f, ok := x.(interface{ ParseBlocklists() }); ok {
		f.ParseBlocklists()
	}
	return nil
}

// VerifC19Blocklists: every configured block/allow-list entry is enforced - an
// entry that cannot be parsed must not be dropped silently.  Symbolic lists of
// up to two entries each, plus the lists of the shipped app_config.toml.
func VerifC19Blocklists() {
	verifnd.Sequential()
	c := &RegConfig{}
	var bad [3]bool
	if verifnd.Choose("source", 2) == 1 {
		// the shipped configuration file, read from /repo on this run
		c.CovertBlocklistSubnets = verifnd.ShippedList("covert_blocklist_subnets")
		c.CovertAllowlistSubnets = verifnd.ShippedList("covert_allowlist_subnets")
		c.PhantomBlocklist = verifnd.ShippedList("phantom_blocklist")
		verifnd.Assert(len(c.CovertBlocklistSubnets) > 0, "C19.shipped-config-read")
		verifnd.Finding("C19-F1", true)
	} else {
		nb, na, np := 2, 2, 1
		if verifnd.Thorough() {
			// thorough: one list at a time grows to three entries while the others shrink to
			// one (the three lists are parsed by independent loops)
			switch verifnd.Choose("long-list", 3) {
			case 0:
				nb, na, np = 3, 1, 1
			case 1:
				nb, na, np = 1, 3, 1
			case 2:
				nb, na, np = 1, 1, 3
			}
		}
		c.CovertBlocklistSubnets, bad[0] = verifList("block", nb)
		c.CovertAllowlistSubnets, bad[1] = verifList("allow", na)
		c.PhantomBlocklist, bad[2] = verifList("phantom", np)
		verifnd.Finding("C19-F1", bad[0] || bad[1] || bad[2])
	}
	err := verifParseBlocklists(c)
	if err == nil {
		// an accepted configuration: every entry is enforced
		verifnd.Assert(len(c.covertBlocklistSubnets) == len(c.CovertBlocklistSubnets), "C19.every-covert-blocklist-entry-enforced")
		verifnd.Assert(len(c.covertAllowlistSubnets) == len(c.CovertAllowlistSubnets), "C19.every-covert-allowlist-entry-enforced")
		verifnd.Assert(len(c.phantomBlocklist) == len(c.PhantomBlocklist), "C19.every-phantom-blocklist-entry-enforced")
		verifnd.Assert(c.enableCovertAllowlist == (len(c.CovertAllowlistSubnets) > 0), "C19.allowlist-in-force-iff-configured")
		verifnd.Reach("C19.blocklists.accepted")
	} else {
		// the load may fail only because of an entry that is not a well-formed CIDR
		verifnd.Assert(bad[0] || bad[1] || bad[2], "C19.load-fails-only-for-an-unparsable-entry")
		verifnd.Reach("C19.blocklists.refused")
	}
	verifnd.Reach("C19.blocklists.done")
}

// VerifC19Reload: after OnReload each part (phantom subnets, address policies,
// GeoIP) is entirely the new or entirely the previous version, and the new one
// only if it loaded without error; the station's housekeeping (statistics
// printers, expiry sweep) does not panic before or after.
// verif:replay=model
func VerifC19Reload() {
	verifnd.Sequential()
	lt := &verifLiveness{}
	var ann []verifAnnouncement
	rm := verifManager(lt, &ann)
	logger := verifLogger()
	oldGeo := rm.GeoIP
	// housekeeping on the running station
	rm.PrintAndReset(logger)
	rm.RemoveOldRegistrations()
	GetProxyStats().PrintAndReset(logger)
	maxReloads := 2
	if verifnd.Thorough() {
		maxReloads = 3
	}
	reloads := 1 + verifnd.Choose("reloads", maxReloads)
	for i := 0; i < reloads; i++ {
		nc := &RegConfig{CovertBlocklistSubnets: []string{"172.16.0.0/12"}, PhantomBlocklist: []string{"198.51.100.0/24"}}
		if verifnd.Bool("geoip-configured") {
			nc.DBConfig = &geoip.DBConfig{CCDBPath: "/nonexistent/cc.mmdb", ASNDBPath: "/nonexistent/asn.mmdb"}
		}
		_ = verifParseBlocklists(nc)
		before := rm.PhantomSelector
		rm.OnReload(nc)
		// phantom subnets: the modelled loader yields an EMPTY selector, or fails
		if rm.PhantomSelector != before {
			verifnd.Assert(rm.PhantomSelector.GetSubnetsByGeneration(1) == nil, "C19.reload.new-subnets-replace-old-entirely")
			verifnd.Reach("C19.reload.subnets-replaced")
		} else {
			verifnd.Assert(verifnd.SubnetLoadFailed(i), "C19.reload.failed-subnet-load-keeps-previous")
			verifnd.Reach("C19.reload.subnets-kept")
		}
		// new iff loaded; a generation that the new file no longer lists is gone after a successful load
		verifnd.Assert(verifnd.SubnetLoadFailed(i) == (rm.PhantomSelector == before), "C19.reload.subnets-new-iff-loaded")
		if i == 0 {
			verifnd.Assert(verifnd.SubnetLoadFailed(i) == (rm.PhantomSelector.GetSubnetsByGeneration(1) != nil), "C19.reload.withdrawn-generation-gone-iff-loaded")
		}
		// policies: exactly the new lists
		verifnd.Assert(len(rm.covertBlocklistSubnets) == 1 && rm.covertBlocklistSubnets[0].String() == "172.16.0.0/12" &&
			len(rm.phantomBlocklist) == 1 && rm.phantomBlocklist[0].String() == "198.51.100.0/24" && !rm.enableCovertAllowlist, "C19.reload.policies-are-the-new-ones")
		verifnd.Assert(rm.GeoIP != nil, "C19.reload.geoip-never-nil")
		_ = oldGeo
		rm.PrintAndReset(logger)
		rm.RemoveOldRegistrations()
	}
	verifnd.Reach("C19.reload.done")
}

package lib

import (
	"net"
	"time"

	"github.com/refraction-networking/conjure/internal/verifnd"
	pb "github.com/refraction-networking/conjure/proto"
)

// ghost state of one possible registration
type verifGhost struct {
	secret  []byte
	tt      pb.TransportType
	phantom net.IP
	tracked bool
	valid   bool
	used    bool
	age     time.Duration
	obj     *DecoyRegistration // the tracked object
}

func verifUniverse() []*verifGhost {
	a, b := verifSecret(0x11), verifSecret(0x22)
	return []*verifGhost{
		{secret: a, tt: pb.TransportType_Min, phantom: verifP4},
		{secret: a, tt: pb.TransportType_Prefix, phantom: verifP4},
		{secret: b, tt: pb.TransportType_Min, phantom: verifP4},
		{secret: a, tt: pb.TransportType_Min, phantom: verifP6},
	}
}

func verifAge(tag string) time.Duration {
	// ages exactly at a limit are left unconstrained by the property
	age := time.Duration(verifnd.Range(tag, 0, int(8*time.Hour)))
	verifnd.Assume(age != 10*time.Minute)
	verifnd.Assume(age != 6*time.Hour)
	return age
}

func verifExpired(g *verifGhost) bool {
	return verifnd.Or(verifnd.And(!g.used, g.age > 10*time.Minute), g.age > 6*time.Hour)
}

// verifTimeoutOf finds the timeout record that points at g's registration (by
// the record's own fields, whatever the map is keyed by); when several records
// point at it, the newest (the only one for which that can be decided by content
// is the one just written) - records are compared by identity.
func verifTimeoutOf(r *RegisteredDecoys, d *DecoyRegistration) *DecoyTimeout {
	t, ok := r.transports[d.Transport]
	if !ok {
		return nil
	}
	id, ph := t.GetIdentifier(d), d.PhantomIp.String()
	for _, to := range r.decoysTimeouts {
		if to.identifier == id && to.decoy == ph {
			return to
		}
	}
	return nil
}

// verifSetAge rewrites the registration time of g's timeout record so that the
// registration is `age` old now.
func verifSetAge(r *RegisteredDecoys, g *verifGhost) {
	if to := verifTimeoutOf(r, g.obj); to != nil {
		to.registrationTime = time.Now().Add(-g.age)
	}
}

func verifCheckRegistry(r *RegisteredDecoys, u []*verifGhost, when string) {
	tracked := 0
	for _, g := range u {
		probe := verifNewReg(g.secret, g.tt, g.phantom)
		ex := r.registrationExists(probe)
		verifnd.Assert((ex != nil) == g.tracked, "C08."+when+".tracked-iff-unexpired")
		regs := r.getRegistrations(g.phantom)
		_, found := regs[r.transports[g.tt].GetIdentifier(probe)]
		verifnd.Assert(found == (g.tracked && g.valid), "C08."+when+".lookup-iff-tracked-and-valid")
		if g.tracked {
			tracked++
		}
	}
	verifnd.Assert(len(r.decoysTimeouts) == tracked, "C08."+when+".timeouts-bounded")
	verifnd.Assert(r.totalRegistrations() == tracked, "C08."+when+".registrations-bounded")
}

// same secret, same phantom, different transport both tracked (input class of C08-F1)
func verifSharedSecretClass(u []*verifGhost) bool {
	return u[0].tracked && u[1].tracked
}

// VerifC08Histories: every history of four operations of register / duplicate /
// validate / connect / advance time / sweep over a universe of four possible
// registrations (one secret with two transports, a second secret, the same
// secret on a second phantom of the other family).
// verif:thorough-only
// verif:shards=14
func VerifC08Histories() {
	verifnd.Sequential()
	var ann []verifAnnouncement
	r := verifRegistry(&ann)
	logger := verifLogger()
	u := verifUniverse()
	n := 4 // history length (14 operations per step, sharded on the first)
	shared := false
	for step := 0; step < n; step++ {
		op := verifnd.Choose("op", 14)
		switch {
		case op < 4: // register (or duplicate)
			g := u[op]
			d := verifNewReg(g.secret, g.tt, g.phantom)
			err := r.Track(d)
			verifnd.Assert(err == nil, "C08.track.noerror")
			if !g.tracked {
				g.tracked, g.valid, g.used, g.obj = true, false, false, d
				g.age = verifAge("age")
				verifSetAge(r, g)
			}
		case op < 8: // validate
			g := u[op-4]
			d := verifNewReg(g.secret, g.tt, g.phantom)
			_ = r.register(g.phantom.String(), d)
			if !g.tracked {
				g.tracked, g.used, g.obj, g.age = true, false, d, 0
			}
			g.valid = true
		case op < 12: // connection: look up, mark active if found
			g := u[op-8]
			probe := verifNewReg(g.secret, g.tt, g.phantom)
			regs := r.getRegistrations(g.phantom)
			if reg, ok := regs[r.transports[g.tt].GetIdentifier(probe)]; ok {
				r.markActive(reg)
				g.used = true
			}
		case op == 12: // time passes
			d := time.Duration(verifnd.Range("advance", 0, int(8*time.Hour)))
			for _, g := range u {
				if g.tracked {
					g.age += d
					verifnd.Assume(g.age != 10*time.Minute)
					verifnd.Assume(g.age != 6*time.Hour)
				}
			}
			for _, to := range r.decoysTimeouts {
				to.registrationTime = to.registrationTime.Add(-d)
			}
		case op == 13: // sweep
			shared = shared || verifSharedSecretClass(u)
			verifnd.Finding("C08-F1", shared)
			r.removeOldRegistrations(logger)
			for _, g := range u {
				if g.tracked && verifExpired(g) {
					g.tracked, g.valid, g.used, g.obj = false, false, false, nil
				}
			}
			verifCheckRegistry(r, u, "after-sweep")
			verifnd.Reach("C08.swept")
		}
		shared = shared || verifSharedSecretClass(u)
	}
	verifnd.Finding("C08-F1", shared)
	verifCheckRegistry(r, u, "end")
	verifnd.Reach("C08.done")
}

// VerifC08Scenario: the canonical order of a history - up to two registrations
// from the universe (the second may duplicate the first), each optionally
// validated and connected to, with arbitrary ages; sweep; time passes; sweep.
// Operations on different registrations commute, so this template reaches the
// states of the free histories of VerifC08Histories with far fewer paths.
// verif:shards=16
func VerifC08Scenario() {
	verifnd.Sequential()
	var ann []verifAnnouncement
	r := verifRegistry(&ann)
	logger := verifLogger()
	u := verifUniverse()
	k := verifnd.Choose("pair", 16) // first decision: sharded
	picks := []int{k % 4}
	if second := k / 4; second < 4 {
		picks = append(picks, second) // may equal the first: duplicate registration
	}
	if !verifnd.Thorough() && len(picks) == 2 && picks[1] == 3 && picks[0] == 3 {
		return
	}
	for _, i := range picks {
		g := u[i]
		d := verifNewReg(g.secret, g.tt, g.phantom)
		verifnd.Assert(r.Track(d) == nil, "C08.track.noerror")
		if !g.tracked {
			g.tracked, g.obj = true, d
			g.age = verifAge("age")
			verifSetAge(r, g)
		}
	}
	verifnd.Finding("C08-F1", verifSharedSecretClass(u))
	for _, i := range picks {
		g := u[i]
		if verifnd.Bool("validate") {
			_ = r.register(g.phantom.String(), verifNewReg(g.secret, g.tt, g.phantom))
			g.valid = true
		}
	}
	// exactly one New announcement per validated registration
	nvalid := 0
	for _, g := range u {
		if g.valid {
			nvalid++
		}
	}
	verifnd.Assert(len(ann) == nvalid, "C08.announce-once")
	for _, i := range picks {
		g := u[i]
		if verifnd.Bool("connect") {
			probe := verifNewReg(g.secret, g.tt, g.phantom)
			regs := r.getRegistrations(g.phantom)
			reg, ok := regs[r.transports[g.tt].GetIdentifier(probe)]
			verifnd.Assert(ok == g.valid, "C08.connect.found-iff-valid")
			if ok {
				r.markActive(reg)
				g.used = true
			}
		}
	}
	sweep := func(when string) {
		r.removeOldRegistrations(logger)
		for _, g := range u {
			if g.tracked && verifExpired(g) {
				g.tracked, g.valid, g.used, g.obj = false, false, false, nil
			}
		}
		verifCheckRegistry(r, u, when)
	}
	sweep("after-sweep")
	verifnd.Reach("C08.scenario.swept")
	d := time.Duration(verifnd.Range("advance", 0, int(8*time.Hour)))
	for _, g := range u {
		if g.tracked {
			g.age += d
			verifnd.Assume(g.age != 10*time.Minute)
			verifnd.Assume(g.age != 6*time.Hour)
		}
	}
	for _, to := range r.decoysTimeouts {
		to.registrationTime = to.registrationTime.Add(-d)
	}
	sweep("after-second-sweep")
	verifnd.Reach("C08.scenario.done")
}

package lib

import (
	"errors"
	"fmt"
	"io"
	"net"
	"os"
	"syscall"
	"time"

	"github.com/refraction-networking/conjure/internal/verifnd"
)

type verifTimeoutErr struct{}

func (verifTimeoutErr) Error() string   { return "i/o timeout" }
func (verifTimeoutErr) Timeout() bool   { return true }
func (verifTimeoutErr) Temporary() bool { return true }

type verifAddr struct{ s string }

func (a verifAddr) Network() string { return "tcp" }
func (a verifAddr) String() string  { return a.s }

// verifErrKinds: the error shapes the network stack hands to the relay
var verifClientAddr = &net.TCPAddr{IP: net.ParseIP("203.0.113.77"), Port: 54321}
var verifStationAddr = &net.TCPAddr{IP: net.ParseIP("192.0.2.1"), Port: 443}

func verifErr(kind int, op string) error { return verifErrPeer(kind, op, verifClientAddr) }

// verifErrPeer: the error shapes of the network stack on a connection to peer.
func verifErrPeer(kind int, op string, peer net.Addr) error {
	wrap := func(e error) error {
		return &net.OpError{Op: op, Net: "tcp", Source: verifStationAddr, Addr: peer, Err: e}
	}
	switch kind {
	case 0:
		return io.EOF
	case 1:
		return wrap(os.NewSyscallError(op, syscall.ECONNRESET))
	case 2:
		return wrap(os.NewSyscallError(op, syscall.EPIPE))
	case 3:
		return wrap(verifTimeoutErr{})
	case 4:
		return net.ErrClosed
	case 5:
		return wrap(os.NewSyscallError(op, syscall.ENETUNREACH)) // an errno nobody listed
	case 7:
		return wrap(os.NewSyscallError(op, syscall.ETIMEDOUT)) // the kernel's timeout (peer vanished), not a deadline
	case 8:
		return wrap(os.NewSyscallError(op, syscall.EHOSTUNREACH))
	case 9:
		return wrap(os.NewSyscallError(op, syscall.ECONNREFUSED))
	case 10:
		return wrap(os.NewSyscallError(op, syscall.ECONNABORTED))
	case 11:
		// a layered connection (DTLS record layer, TLS, framing) reporting the socket's error
		// wrapped in its own - with an errno nobody listed
		return fmt.Errorf("record layer: %w", wrap(os.NewSyscallError(op, syscall.ENETUNREACH)))
	}
	return errors.New("some other failure")
}

type verifRead struct {
	n   int
	err error
}
type verifWrite struct {
	accept int // bytes accepted (-1: all)
	err    error
}

// verifConn is a scripted, fault-injecting net.Conn.
type verifConn struct {
	name        string
	reads       []verifRead
	rpos        int
	readData    []byte // every byte handed out by Read, in order
	writes      []verifWrite
	wpos        int
	written     []byte // every byte accepted by Write, in order
	closed      int
	closeErr    error
	deadlines   int
	deadlineErr int // index of the SetDeadline call that fails (-1: never)
	remote      net.Addr
}

func (c *verifConn) Read(p []byte) (int, error) {
	if c.closed > 0 {
		return 0, net.ErrClosed
	}
	if c.rpos >= len(c.reads) {
		return 0, io.EOF
	}
	r := c.reads[c.rpos]
	c.rpos++
	n := r.n
	if n > len(p) {
		n = len(p)
	}
	data := verifnd.Bytes(c.name+".data", n)
	copy(p, data)
	c.readData = append(c.readData, data...)
	return n, r.err
}

func (c *verifConn) Write(p []byte) (int, error) {
	if c.closed > 0 {
		return 0, net.ErrClosed
	}
	w := verifWrite{accept: -1}
	if c.wpos < len(c.writes) {
		w = c.writes[c.wpos]
	}
	c.wpos++
	n := len(p)
	if w.accept >= 0 && w.accept < n {
		n = w.accept
	}
	c.written = append(c.written, p[:n]...)
	return n, w.err
}

func (c *verifConn) Close() error {
	c.closed++
	return c.closeErr
}
func (c *verifConn) LocalAddr() net.Addr { return verifStationAddr }
func (c *verifConn) RemoteAddr() net.Addr {
	if c.remote != nil {
		return c.remote
	}
	return verifClientAddr
}
func (c *verifConn) SetDeadline(t time.Time) error {
	i := c.deadlines
	c.deadlines++
	if i == c.deadlineErr {
		return verifErr(1, "set")
	}
	return nil
}
func (c *verifConn) SetReadDeadline(t time.Time) error  { return c.SetDeadline(t) }
func (c *verifConn) SetWriteDeadline(t time.Time) error { return c.SetDeadline(t) }

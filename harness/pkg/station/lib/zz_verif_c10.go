package lib

import (
	"net"

	"github.com/refraction-networking/conjure/internal/verifnd"
	pb "github.com/refraction-networking/conjure/proto"
	"google.golang.org/protobuf/proto"
)

func verifIsV4(ip []byte) bool {
	if len(ip) == 4 {
		return true
	}
	if len(ip) != 16 {
		return false
	}
	m := ip[10] == 0xff && ip[11] == 0xff
	for i := 0; i < 10; i++ {
		m = verifnd.And(m, ip[i] == 0)
	}
	return m
}

// verifDetectorAccepts: the detector's acceptance rules (as extracted from
// sessions.rs on this run) applied to a published message whose address
// fields were printed from the given bytes.
func verifDetectorAccepts(phantom, client []byte, proto pb.IPProto) bool {
	ok := true
	switch proto {
	case pb.IPProto_Tcp:
		ok = verifnd.DetectorRule("proto.tcp") == 1
	case pb.IPProto_Udp:
		ok = verifnd.DetectorRule("proto.udp") == 1
	default:
		ok = verifnd.DetectorRule("proto.other-rejected") == 0
	}
	phantomParses := len(phantom) == 4 || len(phantom) == 16 // Go prints these as address literals
	clientParses := len(client) == 4 || len(client) == 16
	ok = ok && (phantomParses || verifnd.DetectorRule("phantom-must-parse") == 0)
	if !clientParses {
		// printed as "" (absent) or "?…": only the empty string with a v6 phantom is tolerated
		ok = ok && len(client) == 0 && verifnd.DetectorRule("client-empty-ok-for-v6") == 1 && !verifIsV4(phantom)
	}
	if verifnd.DetectorRule("mixed-rejected") == 1 && phantomParses && clientParses {
		ok = verifnd.And(ok, verifnd.Or(!verifIsV4(phantom), verifIsV4(client)))
	}
	return ok
}

func verifRulesRecognised() bool {
	for _, r := range []string{"proto.tcp", "proto.udp", "proto.other-rejected", "phantom-must-parse", "client-empty-ok-for-v6", "mixed-rejected", "conversion-before-dispatch"} {
		if verifnd.DetectorRule(r) < 0 {
			return false
		}
	}
	return true
}

// VerifC10Announcements: every admitted registration (any transport protocol,
// both families, registrant absent / IPv4 / IPv6 / v4-mapped, registrar
// overrides of port and phantom) is announced with messages the detector
// accepts, carrying the registration's own fields and the station's own
// lifetimes; then the Clear request.
// verif:replay=model
// verif:shards=6
func VerifC10Announcements() {
	verifnd.Sequential()
	verifnd.Assert(verifRulesRecognised(), "C10.detector-rules-recognised")
	k := verifnd.Choose("case", 6) // sharded: registrant kind x family of the message
	registrantKind := k % 3        // 0 absent, 1 IPv4, 2 IPv6 (arbitrary 16 bytes, may be v4-mapped)
	wantV6 := k/3 == 1
	lt := &verifLiveness{}
	var ann []verifAnnouncement
	rm := verifManager(lt, &ann)
	// the real publishers
	real := NewRegisteredDecoys()
	rm.registeredDecoys.registerForDetector = real.registerForDetector
	rm.registeredDecoys.updateInDetector = real.updateInDetector
	rm.PhantomBlocklist, rm.phantomBlocklist = nil, nil
	rm.EnableIPv4, rm.EnableIPv6 = true, true
	verifnd.LoopBound("crypto/rand.Int", 2)
	tt := []pb.TransportType{pb.TransportType_Min, pb.TransportType_Prefix}[verifnd.Choose("transport", 2)]
	covert := verifCovertOK
	w := &pb.C2SWrapper{SharedSecret: verifnd.Bytes("secret", 32), RegistrationSource: pb.RegistrationSource_API.Enum(),
		RegistrationPayload: &pb.ClientToStation{V4Support: proto.Bool(!wantV6), V6Support: proto.Bool(wantV6),
			Transport: &tt, DecoyListGeneration: proto.Uint32(1), ClientLibVersion: proto.Uint32(4), CovertAddress: &covert,
			Flags: &pb.RegistrationFlags{Prescanned: proto.Bool(true)}}}
	switch registrantKind {
	case 1:
		w.RegistrationAddress = verifnd.Bytes("registrant4", 4)
	case 2:
		w.RegistrationAddress = verifnd.Bytes("registrant16", 16)
	}
	// registrar overrides of port and phantom (bidirectional registration)
	if verifnd.Bool("registrar-response") {
		rr := &pb.RegistrationResponse{}
		if verifnd.Bool("port-override") {
			rr.DstPort = proto.Uint32(uint32(verifnd.U16("port")))
		}
		if verifnd.Bool("phantom-override") {
			if wantV6 {
				rr.Ipv6Addr = verifnd.Bytes("phantom16", 16) // arbitrary 16 bytes: may be an IPv4-mapped address
			} else {
				rr.Ipv4Addr = proto.Uint32(verifnd.U32("phantom4"))
			}
		}
		w.RegistrationResponse = rr
	}
	raw, _ := proto.Marshal(w)
	regs, err := rm.parseRegMessage(raw)
	if err != nil || len(regs) == 0 {
		verifnd.Reach("C10.not-admitted")
		return
	}
	for _, r := range regs {
		rm.ingestRegistration(r)
	}
	verifnd.Settle()
	r := regs[0]
	if !r.Valid {
		return
	}
	verifnd.Assert(verifnd.PublishedCount() == 1, "C10.one-new-announcement")
	check := func(i int, op pb.StationOperations, lifetime uint64, tag string) {
		m := &pb.StationToDetector{}
		verifnd.Assert(proto.Unmarshal(verifnd.Published(i), m) == nil, "C10."+tag+".parses")
		verifnd.Assert(m.GetOperation() == op, "C10."+tag+".operation")
		verifnd.Assert(verifDetectorAccepts(r.PhantomIp, r.registrationAddr, m.GetProto()), "C10."+tag+".detector-accepts")
		verifnd.Assert(m.GetPhantomIp() == r.PhantomIp.String() && m.GetClientIp() == r.registrationAddr.String(), "C10."+tag+".addresses-are-the-registration's")
		verifnd.Assert(m.GetDstPort() == uint32(r.PhantomPort) && m.GetProto() == r.PhantomProto && m.GetProto() == rm.registeredDecoys.transports[r.Transport].GetProto(), "C10."+tag+".port-and-protocol")
		verifnd.Assert(m.GetTimeoutNs() == lifetime, "C10."+tag+".lifetime-is-the-station's")
	}
	check(0, pb.StationOperations_New, uint64(rm.registeredDecoys.timeoutUnused.Nanoseconds()), "new")
	rm.MarkActive(r)
	verifnd.Assert(verifnd.PublishedCount() == 2, "C10.one-update-announcement")
	check(1, pb.StationOperations_Update, uint64(rm.registeredDecoys.timeoutActive.Nanoseconds()), "update")
	verifnd.Reach("C10.announced")
}

// VerifC10Clear: the shutdown request is one the detector acts on.
// verif:replay=model
func VerifC10Clear() {
	verifnd.Sequential()
	verifnd.Assert(verifRulesRecognised(), "C10.detector-rules-recognised")
	verifnd.Finding("C10-F1", true)
	rm := verifManager(&verifLiveness{}, &[]verifAnnouncement{})
	rm.Cleanup()
	verifnd.Assert(verifnd.PublishedCount() == 1, "C10.clear.published")
	m := &pb.StationToDetector{}
	verifnd.Assert(proto.Unmarshal(verifnd.Published(0), m) == nil && m.GetOperation() == pb.StationOperations_Clear, "C10.clear.operation")
	// acted on = dispatched: either the detector dispatches before converting, or the message converts
	var phantom, client net.IP
	if m.PhantomIp != nil {
		phantom = net.ParseIP(m.GetPhantomIp())
	}
	if m.ClientIp != nil {
		client = net.ParseIP(m.GetClientIp())
	}
	acted := verifnd.DetectorRule("conversion-before-dispatch") == 0 || verifDetectorAccepts(phantom, client, m.GetProto())
	verifnd.Assert(acted, "C10.clear.detector-acts-on-it")
	// verif:optional-reach C10.clear.done (reached once the Clear request is acted on)
	verifnd.Reach("C10.clear.done")
}

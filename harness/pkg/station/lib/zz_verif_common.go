package lib

import (
	"net"
	"os"
	"time"

	"github.com/refraction-networking/conjure/internal/verifnd"
	"github.com/refraction-networking/conjure/pkg/core"
	"github.com/refraction-networking/conjure/pkg/station/log"
	"github.com/refraction-networking/conjure/pkg/transports"
	pb "github.com/refraction-networking/conjure/proto"
	"google.golang.org/protobuf/types/known/anypb"
)

// verifT is a stand-in transport for registry-level harnesses: its identifier is
// a fixed injective function of (label, shared secret), which is all the
// registry relies on (the real transports' identifiers are C01/C02's subject).
type verifT struct {
	label string
	tt    pb.TransportType
}

func (t verifT) Name() string      { return t.label }
func (t verifT) LogPrefix() string { return t.label }
func (t verifT) GetIdentifier(r transports.Registration) string {
	return t.label + ":" + string(r.SharedSecret())
}
func (t verifT) GetProto() pb.IPProto { return pb.IPProto_Tcp }
func (t verifT) GetDstPort(libVersion uint, seed []byte, parameters any) (uint16, error) {
	return 443, nil
}
func (t verifT) ParseParams(libVersion uint, data *anypb.Any) (any, error) { return nil, nil }
func (t verifT) ParamStrings(p any) []string                               { return nil }

type verifAnnouncement struct {
	reg *DecoyRegistration
	op  pb.StationOperations
}

// verifRegistry builds a registry with two stand-in transports and recorders in
// place of the Redis publishers.
func verifRegistry(ann *[]verifAnnouncement) *RegisteredDecoys {
	r := NewRegisteredDecoys()
	r.transports[pb.TransportType_Min] = verifT{"min", pb.TransportType_Min}
	r.transports[pb.TransportType_Prefix] = verifT{"prefix", pb.TransportType_Prefix}
	r.registerForDetector = func(d *DecoyRegistration) {
		*ann = append(*ann, verifAnnouncement{d, pb.StationOperations_New})
	}
	r.updateInDetector = func(d *DecoyRegistration) {
		*ann = append(*ann, verifAnnouncement{d, pb.StationOperations_Update})
	}
	return r
}

func verifLogger() *log.Logger { return log.New(os.Stdout, "[VERIF] ", 0) }

var (
	verifP4 = net.ParseIP("192.0.2.1").To4()
	verifP6 = net.ParseIP("2001:db8::1")
)

func verifSecret(c byte) []byte {
	s := make([]byte, 32)
	for i := range s {
		s[i] = c
	}
	return s
}

func verifNewReg(secret []byte, tt pb.TransportType, phantom net.IP) *DecoyRegistration {
	src := pb.RegistrationSource_API
	return &DecoyRegistration{
		PhantomIp:          phantom,
		PhantomPort:        443,
		Keys:               &core.ConjureSharedKeys{SharedSecret: secret},
		Transport:          tt,
		RegistrationSource: &src,
		RegistrationTime:   time.Now(),
	}
}

var _ = verifnd.Bool

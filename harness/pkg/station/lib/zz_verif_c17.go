package lib

import (
	"bytes"
	"net"
	"strings"
	"sync"

	"github.com/refraction-networking/conjure/internal/verifnd"
	"github.com/refraction-networking/conjure/pkg/station/log"
)

func verifLeaks(buf *bytes.Buffer, needle string) bool {
	if verifnd.Symbolic() {
		return verifnd.LogLeaks(needle)
	}
	return strings.Contains(buf.String(), needle)
}

// VerifC17Relay: with client-address logging disabled and the default log
// level, no error shape (each anticipated errno, an unanticipated one, a
// timeout, EOF, closed, an opaque error) at any I/O call of the relay (read,
// write, set-deadline, close; either direction) puts the client's address into
// a log line or into the tunnel summary - for IPv4 and IPv6 clients.
// verif:shards=8
func VerifC17Relay() {
	verifnd.Sequential()
	k := verifnd.Choose("case", 8) // sharded: call site x direction
	site := k % 4                  // read, write, set-deadline, close
	upload := k/4 == 0
	kind := verifnd.Choose("kind", 7)
	client := "203.0.113.77"
	if verifnd.Bool("v6-client") {
		client = "2001:db8:c11e::77"
		verifClientAddr = &net.TCPAddr{IP: net.ParseIP(client), Port: 54321}
	}
	verifnd.Finding("C17-F1", kind == 5)
	var logbuf bytes.Buffer
	logger := log.New(&logbuf, "[VERIF] ", 0)
	src := &verifConn{name: "src", deadlineErr: -1}
	dst := &verifConn{name: "dst", deadlineErr: -1}
	// the client side is the source of an upload / the destination of a download
	cl, other := src, dst
	if !upload {
		cl, other = dst, src
	}
	_ = other
	e := verifErr(kind, []string{"read", "write", "set", "close"}[site])
	src.reads = []verifRead{{n: 2}, {n: 1}}
	switch site {
	case 0:
		src.reads = []verifRead{{n: 2}, {n: 0, err: e}}
		if !upload {
			// a failing read on the covert side names the covert, not the client: inject on the client side
			src.reads = []verifRead{{n: 2}}
			cl.writes = []verifWrite{{accept: 0, err: e}}
		}
	case 1:
		dst.writes = []verifWrite{{accept: 0, err: e}}
		if upload {
			dst.writes = nil
			cl.reads = []verifRead{{n: 0, err: e}}
		}
	case 2:
		cl.deadlineErr = verifnd.Choose("at", 2)
	case 3:
		cl.closeErr = e
	}
	var wg sync.WaitGroup
	wg.Add(1)
	stats := &tunnelStats{proxyStats: getProxyStats()}
	tag := "Down x"
	if upload {
		tag = "Up x"
	}
	halfPipe(src, dst, &wg, logger, tag, stats)
	verifnd.Settle()
	stats.Print(logger)
	verifnd.Assert(!verifLeaks(&logbuf, client), "C17.relay.no-client-address-in-logs")
	verifnd.Assert(!strings.Contains(stats.ClientConnErr, client) && !strings.Contains(stats.CovertConnErr, client) && !strings.Contains(stats.CovertDialErr, client), "C17.relay.no-client-address-in-tunnel-summary")
	verifnd.Reach("C17.relay.done")
}

package lib

import (
	"bytes"
	"net"
	"strings"
	"sync"

	"github.com/refraction-networking/conjure/internal/verifnd"
	"github.com/refraction-networking/conjure/pkg/station/log"
	pb "github.com/refraction-networking/conjure/proto"
)

func verifLeaks(buf *bytes.Buffer, needle string) bool {
	if verifnd.Symbolic() {
		return verifnd.LogLeaks(needle)
	}
	return strings.Contains(buf.String(), needle)
}

// VerifC17Relay: with client-address logging disabled and the default log
// level, no error shape (each anticipated errno, an unanticipated one, a
// deadline timeout, a kernel timeout, EOF, closed, an opaque error) at any I/O call of the relay (read,
// write, set-deadline, close; either direction) puts the client's address into
// a log line or into the tunnel summary - for IPv4 and IPv6 clients.
// verif:shards=8
func VerifC17Relay() {
	verifnd.Sequential()
	k := verifnd.Choose("case", 8) // sharded: call site x direction
	site := k % 4                  // read, write, set-deadline, close
	upload := k/4 == 0
	kind := verifnd.Choose("kind", 12) // every shape of verifErr
	client := "203.0.113.77"
	if verifnd.Bool("v6-client") {
		client = "2001:db8:c11e::77"
		verifClientAddr = &net.TCPAddr{IP: net.ParseIP(client), Port: 54321}
	}
	verifnd.Finding("C17-F1", kind == 5)
	var logbuf bytes.Buffer
	logger := log.New(&logbuf, "[VERIF] ", 0)
	src := &verifConn{name: "src", deadlineErr: -1}
	dst := &verifConn{name: "dst", deadlineErr: -1}
	// the client side is the source of an upload / the destination of a download
	cl, other := src, dst
	if !upload {
		cl, other = dst, src
	}
	_ = other
	e := verifErr(kind, []string{"read", "write", "set", "close"}[site])
	src.reads = []verifRead{{n: 2}, {n: 1}}
	switch site {
	case 0:
		src.reads = []verifRead{{n: 2}, {n: 0, err: e}}
		if !upload {
			// a failing read on the covert side names the covert, not the client: inject on the client side
			src.reads = []verifRead{{n: 2}}
			cl.writes = []verifWrite{{accept: 0, err: e}}
		}
	case 1:
		dst.writes = []verifWrite{{accept: 0, err: e}}
		if upload {
			dst.writes = nil
			cl.reads = []verifRead{{n: 0, err: e}}
		}
	case 2:
		cl.deadlineErr = verifnd.Choose("at", 2)
	case 3:
		cl.closeErr = e
	}
	if verifnd.Thorough() && site != 3 {
		// thorough: a second fault - closing the client connection fails as well, with any shape
		k2 := verifnd.Choose("close-kind", 12)
		cl.closeErr = verifErr(k2, "close")
	}
	var wg sync.WaitGroup
	wg.Add(1)
	stats := &tunnelStats{proxyStats: getProxyStats()}
	tag := "Down x"
	if upload {
		tag = "Up x"
	}
	halfPipe(src, dst, &wg, logger, tag, stats)
	verifnd.Settle()
	stats.Print(logger)
	verifnd.Assert(!verifLeaks(&logbuf, client), "C17.relay.no-client-address-in-logs")
	verifnd.Assert(!strings.Contains(stats.ClientConnErr, client) && !strings.Contains(stats.CovertConnErr, client) && !strings.Contains(stats.CovertDialErr, client), "C17.relay.no-client-address-in-tunnel-summary")
	verifnd.Reach("C17.relay.done")
}

var verifCovertAddr = &net.TCPAddr{IP: net.ParseIP("192.0.2.99"), Port: 443}

// VerifC17Proxy: the relay entry point, with and without the PROXY-header
// registration flag: the dial fails, or the header write / a later covert write
// fails or is short (errors of a covert connection name the covert, not the
// client), or the client side fails in any recognised way: no log line and no
// field of the tunnel summary contains the client's address.
// verif:replay=model
// verif:shards=4
func VerifC17Proxy() {
	verifnd.Sequential()
	k := verifnd.Choose("case", 4) // sharded: PROXY header flag x client family
	hdr, v6 := k%2 == 1, k/2 == 1
	client := "203.0.113.77"
	if v6 {
		client = "2001:db8:c11e::77"
	}
	verifClientAddr = &net.TCPAddr{IP: net.ParseIP(client), Port: 54321}
	var logbuf bytes.Buffer
	logger := log.New(&logbuf, "[VERIF] ", 0)
	cl := &verifConn{name: "client", deadlineErr: -1}
	covert := &verifConn{name: "covert", deadlineErr: -1, remote: verifCovertAddr}
	cl.reads = []verifRead{{n: 2}}
	covert.reads = []verifRead{{n: 2}}
	kind := verifnd.Choose("kind", 12)
	fault := verifnd.Choose("fault", 5)
	verifnd.Finding("C17-F1", kind == 5 && fault >= 3)
	switch fault {
	case 0: // dial fails (with an error connect(2) or the resolver can produce: not EOF / EPIPE / closed)
		verifnd.Cut("dial-error-is-a-connect-error", kind != 0 && kind != 2 && kind != 4)
		verifnd.DialReturns(nil, verifErrPeer(kind, "dial", verifCovertAddr))
	case 1: // first covert write (the header, if requested) fails
		covert.writes = []verifWrite{{accept: 0, err: verifErrPeer(kind, "write", verifCovertAddr)}}
	case 2: // first covert write is short, the next fails
		covert.writes = []verifWrite{{accept: 1}, {accept: 0, err: verifErrPeer(kind, "write", verifCovertAddr)}}
	case 3: // the client's stream ends in an error
		cl.reads = []verifRead{{n: 2}, {err: verifErr(kind, "read")}}
	case 4: // writing to the client fails
		cl.writes = []verifWrite{{accept: 0, err: verifErr(kind, "write")}}
	}
	if fault != 0 {
		verifnd.DialReturns(covert, nil)
	}
	reg := verifNewReg(verifSecret(0x33), 0, verifP4)
	var tr Transport = verifT{"min", 0}
	reg.TransportPtr = &tr
	reg.Covert = "192.0.2.99:443"
	reg.Flags = &pb.RegistrationFlags{ProxyHeader: &hdr}
	Proxy(reg, cl, logger)
	verifnd.Settle()
	verifnd.Assert(!verifLeaks(&logbuf, client), "C17.proxy.no-client-address-in-logs")
	if hdr && fault >= 2 {
		// (by design the PROXY header hands the client's address to the covert, and only to it)
		verifnd.Assert(bytes.Contains(covert.written, []byte(client)) || fault == 2, "C17.proxy.header-reaches-the-covert")
	}
	verifnd.Reach("C17.proxy.done")
}

package lib

import (
	"sync"

	"github.com/refraction-networking/conjure/internal/verifnd"
)

func verifIsPrefix(a, b []byte) bool {
	if len(a) > len(b) {
		return false
	}
	return verifnd.BytesEq(a, b[:len(a)])
}

// VerifC05HalfPipe: one relay direction against scripted, fault-injecting
// connections: every chunking of up to three reads (0-3 bytes each, each with
// any error kind or none), one write fault (short write and/or error) at any
// write, a failing SetDeadline at any call, a failing Close.  What the
// destination accepted is exactly what was read, in order, up to the first
// failing operation - including bytes returned together with an error - and
// both sides are closed, the WaitGroup released once, the byte counter equal to
// the bytes delivered.
// verif:shards=24
func VerifC05HalfPipe() {
	verifnd.Sequential()
	k := verifnd.Choose("case", 24) // sharded: reads x direction x kind of second fault
	nreads := 1 + k%3
	upload := (k/3)%2 == 0
	other := k / 6
	if nreads == 3 && !verifnd.Thorough() {
		return // bound (quick): scripts of one or two reads
	}
	src := &verifConn{name: "src", deadlineErr: -1}
	dst := &verifConn{name: "dst", deadlineErr: -1}
	dataWithErr := false
	for i := 0; i < nreads; i++ {
		r := verifRead{n: verifnd.Choose("n", 3)}
		if i == nreads-1 {
			// the script ends with an error of any kind (a failing read ends the relay, so an
			// earlier failure is the same as a shorter script)
			// (kind 7: no error on the last scripted read; the stream then ends with a bare EOF)
			if kind := verifnd.Choose("kind", 8); kind < 7 {
				r.err = verifErr(kind, "read")
				dataWithErr = r.n > 0
			}
		}
		src.reads = append(src.reads, r)
	}
	verifnd.Finding("C05-F1", dataWithErr)
	writeFault := verifnd.Choose("write-fault", 3) // none, at write 0, at write 1
	if writeFault > 0 {
		w := verifWrite{accept: verifnd.Choose("accepted", 3) - 1}
		if w.accept < 0 || verifnd.Bool("write-error") {
			w.err = verifErr(1+verifnd.Choose("wkind", 2), "write")
		}
		for len(dst.writes) < writeFault-1 {
			dst.writes = append(dst.writes, verifWrite{accept: -1})
		}
		dst.writes = append(dst.writes, w)
	}
	switch other {
	case 1:
		src.deadlineErr = verifnd.Choose("at", 3)
	case 2:
		dst.deadlineErr = verifnd.Choose("at", 3)
	case 3:
		src.closeErr, dst.closeErr = verifErr(1, "close"), verifErr(3, "close")
	}
	var wg sync.WaitGroup
	wg.Add(1)
	stats := &tunnelStats{proxyStats: getProxyStats()}
	tag := "Down x"
	if upload {
		tag = "Up x"
	}
	halfPipe(src, dst, &wg, verifLogger(), tag, stats)
	verifnd.Settle() // the source is closed from its own goroutine
	wg.Wait()        // released exactly once: a second Done would panic, a missing one stalls

	// fidelity
	verifnd.Assert(verifIsPrefix(dst.written, src.readData), "C05.delivered-is-a-prefix-of-what-was-read")
	deadlineFault := src.deadlineErr >= 0 && src.deadlineErr < src.deadlines || dst.deadlineErr >= 0 && dst.deadlineErr < dst.deadlines
	writeFailed := false
	for i, w := range dst.writes {
		if i < dst.wpos && (w.err != nil || w.accept >= 0) {
			writeFailed = true
		}
	}
	if !writeFailed && !deadlineFault {
		verifnd.Assert(len(dst.written) == len(src.readData), "C05.everything-read-is-delivered")
	}
	// counters
	delivered := int64(len(dst.written))
	if upload {
		verifnd.Assert(stats.BytesUp == delivered && stats.BytesDown == 0, "C05.byte-count-equals-delivered")
	} else {
		verifnd.Assert(stats.BytesDown == delivered && stats.BytesUp == 0, "C05.byte-count-equals-delivered")
	}
	// teardown
	verifnd.Assert(src.closed >= 1 && dst.closed >= 1, "C05.both-sides-closed")
	verifnd.Reach("C05.halfpipe.done")
}

// VerifC05Proxy: the whole relay: dial (scripted), both directions, one fault
// on either side: both connections are closed, the call returns, no goroutine
// is left behind, the session gauge is back where it was, each direction's
// byte count equals what its writer accepted, and the address dialled is the
// registration's stored covert string, verbatim.
// verif:replay=model
func VerifC05Proxy() {
	verifnd.Sequential()
	client := &verifConn{name: "client", deadlineErr: -1}
	covert := &verifConn{name: "covert", deadlineErr: -1}
	for _, c := range []*verifConn{client, covert} {
		n := verifnd.Choose(c.name+".reads", 3)
		for i := 0; i < n; i++ {
			r := verifRead{n: 1 + verifnd.Choose("n", 2)}
			if i == n-1 && verifnd.Bool("ends-with-error") {
				r.err = verifErr(1+verifnd.Choose("kind", 4), "read")
				r.n = 0
			}
			c.reads = append(c.reads, r)
		}
	}
	switch verifnd.Choose("fault", 4) {
	case 1:
		covert.writes = []verifWrite{{accept: 0, err: verifErr(2, "write")}}
	case 2:
		client.writes = []verifWrite{{accept: 1}}
	case 3:
		client.closeErr = verifErr(3, "close")
	}
	reg := verifNewReg(verifSecret(0x33), 0, verifP4)
	var tr Transport = verifT{"min", 0}
	reg.TransportPtr = &tr
	reg.Covert = "192.0.2.99:443"
	dialFails := verifnd.Bool("dial-fails")
	if dialFails {
		verifnd.DialReturns(nil, verifErr(5, "dial"))
	} else {
		verifnd.DialReturns(covert, nil)
	}
	gauge := getProxyStats().sessionsProxying
	Proxy(reg, client, verifLogger())
	verifnd.Settle()
	verifnd.Assert(verifnd.Dialed() == reg.Covert, "C05.proxy.dials-the-stored-covert-verbatim")
	verifnd.Assert(getProxyStats().sessionsProxying == gauge, "C05.proxy.session-gauge-restored")
	verifnd.Assert(verifnd.LiveThreads() <= 2, "C05.proxy.no-goroutine-left-behind") // (the two statistics tickers)
	if !dialFails {
		verifnd.Assert(client.closed >= 1 && covert.closed >= 1, "C05.proxy.both-connections-closed")
		verifnd.Assert(verifIsPrefix(covert.written, client.readData) && verifIsPrefix(client.written, covert.readData), "C05.proxy.each-direction-delivers-a-prefix")
		verifnd.Reach("C05.proxy.relayed")
	}
	verifnd.Reach("C05.proxy.done")
}

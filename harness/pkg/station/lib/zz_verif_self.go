package lib

import (
	"bytes"
	"net"

	"github.com/refraction-networking/conjure/internal/verifnd"
)

// Self-checks of engine summaries against the code they summarise ("gosym check
// SELF"; not a property of the repository).

// verifContainsRef is net.IPNet.Contains transcribed from the Go 1.23 source
// (so that the engine executes it instruction by instruction, while the call
// to the real method hits the engine's one-term summary).
func verifContainsRef(n *net.IPNet, ip net.IP) bool {
	to4 := func(ip net.IP) net.IP {
		if len(ip) == 4 {
			return ip
		}
		if len(ip) == 16 {
			for i := 0; i < 10; i++ {
				if ip[i] != 0 {
					return nil
				}
			}
			if ip[10] == 0xff && ip[11] == 0xff {
				return ip[12:16]
			}
		}
		return nil
	}
	var nn net.IP
	var m net.IPMask
	func() {
		if nn = to4(n.IP); nn == nil {
			nn = n.IP
			if len(nn) != 16 {
				nn, m = nil, nil
				return
			}
		}
		m = n.Mask
		switch len(m) {
		case 4:
			if len(nn) != 4 {
				nn, m = nil, nil
			}
		case 16:
			if len(nn) == 4 {
				m = m[12:]
			}
		default:
			nn, m = nil, nil
		}
	}()
	if x := to4(ip); x != nil {
		ip = x
	}
	l := len(ip)
	if l != len(nn) {
		return false
	}
	for i := 0; i < l; i++ {
		if nn[i]&m[i] != ip[i]&m[i] {
			return false
		}
	}
	return true
}

// VerifSELFContains: the summary of (*net.IPNet).Contains equals the transcribed
// library code for every network/mask/address of every length combination in
// {0,4,5,16} with arbitrary bytes.
// verif:shards=4
func VerifSELFContains() {
	lens := []int{4, 16, 0, 5}
	n := &net.IPNet{IP: verifnd.Bytes("net", lens[verifnd.Choose("netlen", 4)]), Mask: verifnd.Bytes("mask", lens[verifnd.Choose("masklen", 4)])}
	ip := net.IP(verifnd.Bytes("ip", lens[verifnd.Choose("iplen", 4)]))
	got := n.Contains(ip)
	want := verifContainsRef(n, ip)
	verifnd.Assert(got == want, "SELF.contains")
	verifnd.Reach("SELF.contains.done")
}

// VerifSELFSelectRendezvous: a send case and a receive case of two selects meet
// on an unbuffered channel only together: whenever the sender's case fired the
// receiver's case fired too (both selects have an alternative that is ready).
func VerifSELFSelectRendezvous() {
	ch := make(chan int)
	stop := make(chan struct{})
	done := make(chan struct{})
	sent, got := 0, 0
	close(stop)
	go func() {
		for i := 0; i < 2; i++ {
			select {
			case <-stop:
			case v := <-ch:
				got += v
			}
		}
		close(done)
	}()
	for i := 0; i < 2; i++ {
		select {
		case ch <- 1:
			sent++
		case <-done:
		}
	}
	verifnd.Settle()
	verifnd.Assert(sent == got, "SELF.select.rendezvous-is-atomic")
	verifnd.Reach("SELF.select.done")
}

// VerifSELFSelectParked: a receiver parked in a select (nothing ready) that is
// then offered a value by a sender's select while another of its cases becomes
// ready at the same time: the value is either taken by the receiver or the send
// did not happen - never "sent but not received".
func VerifSELFSelectParked() {
	ch := make(chan int)
	stop := make(chan struct{})
	done := make(chan struct{})
	sent, got := 0, 0
	go func() {
		for {
			stopped := false
			select {
			case <-stop:
				stopped = true
			case v, ok := <-ch:
				if ok {
					got += v
				}
			}
			if stopped {
				break
			}
		}
		close(done)
	}()
	verifnd.Yield() // let the receiver park
	go func() { close(stop) }()
	for i := 0; i < 2; i++ {
		select {
		case ch <- 1:
			sent++
		case <-done:
		}
	}
	verifnd.Settle()
	verifnd.Assert(sent == got, "SELF.select.parked-rendezvous-is-atomic")
	verifnd.Reach("SELF.select.parked.done")
}

// VerifSELFCaseMap: the per-byte summary of bytes.ToLower / bytes.ToUpper equals
// the definition for every ASCII byte string of length 0-3 (non-ASCII input is
// handed to the library code itself and needs no check).
func VerifSELFCaseMap() {
	b := verifnd.Bytes("b", verifnd.Choose("len", 4))
	for _, c := range b {
		verifnd.Assume(c < 0x80)
	}
	lo, up := bytes.ToLower(b), bytes.ToUpper(b)
	ok := len(lo) == len(b) && len(up) == len(b)
	for i, c := range b {
		isUp := verifnd.And('A' <= c, c <= 'Z')
		isLo := verifnd.And('a' <= c, c <= 'z')
		ok = verifnd.And(ok, verifnd.Implies(isUp, lo[i] == c+32))
		ok = verifnd.And(ok, verifnd.Implies(!isUp, lo[i] == c))
		ok = verifnd.And(ok, verifnd.Implies(isLo, up[i] == c-32))
		ok = verifnd.And(ok, verifnd.Implies(!isLo, up[i] == c))
	}
	verifnd.Assert(ok, "SELF.casemap")
	verifnd.Reach("SELF.casemap.done")
}

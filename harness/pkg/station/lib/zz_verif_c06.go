package lib

import (
	"net"
	"regexp"
	"strconv"

	"github.com/refraction-networking/conjure/internal/verifnd"
)

type verifPolicyNet struct {
	ip   []byte
	ones int
	v6   bool
}

func verifPolicyNets(tag string, n int) ([]*net.IPNet, []verifPolicyNet) {
	var nets []*net.IPNet
	var specs []verifPolicyNet
	for i := 0; i < n; i++ {
		sp := verifPolicyNet{}
		if verifnd.Choose(tag+".family", 2) == 1 {
			sp.v6 = true
			sp.ip = verifnd.Bytes(tag+".net6", 16)
			sp.ones = []int{0, 7, 64, 128}[verifnd.Choose(tag+".ones6", 4)]
			verifnd.Cut("policy-v6-net-not-v4-mapped", verifnd.Or(sp.ip[0] != 0, sp.ip[1] != 0))
		} else {
			sp.ip = verifnd.Bytes(tag+".net4", 4)
			sp.ones = []int{0, 8, 24, 32}[verifnd.Choose(tag+".ones4", 4)]
		}
		_, n, err := net.ParseCIDR(verifnd.CIDR(sp.ip, sp.ones))
		if err != nil {
			panic(err)
		}
		nets = append(nets, n)
		specs = append(specs, sp)
	}
	return nets, specs
}

// verifIn: membership of a 16-byte address in a policy net, written from the
// definition (v4-mapped addresses are IPv4 addresses).
func verifIn(ip16 []byte, sp verifPolicyNet) bool {
	mapped := ip16[10] == 0xff && ip16[11] == 0xff
	for i := 0; i < 10; i++ {
		mapped = verifnd.And(mapped, ip16[i] == 0)
	}
	if sp.v6 {
		m := net.CIDRMask(sp.ones, 128)
		ok := !mapped
		for i := range m {
			ok = verifnd.And(ok, ip16[i]&m[i] == sp.ip[i]&m[i])
		}
		return ok
	}
	m := net.CIDRMask(sp.ones, 32)
	ok := mapped
	for i := range m {
		ok = verifnd.And(ok, ip16[12+i]&m[i] == sp.ip[i]&m[i])
	}
	return ok
}

var verifPorts = []string{"80", "080", "0", "65535", "65536", "99999", "", "8o", "+80", " 80", "-1"}

func verifPortOK(p string) bool {
	_, err := strconv.ParseUint(p, 10, 16)
	return err == nil
}

// VerifC06CovertPolicy: for every textual shape of a covert address (address
// literals with symbolic bytes) and every policy (symbolic block/allow nets),
// the result is "" or a literal IP:port that the policy permits; a permitted
// canonical literal comes back unchanged.
// verif:shards=9
func VerifC06CovertPolicy() {
	verifnd.Sequential()
	form := verifnd.Choose("form", 9) // sharded
	port := verifPorts[verifnd.Choose("port", len(verifPorts))]
	var in string
	var ip []byte
	zone := ""
	switch form {
	case 0: // v4:port
		ip = verifnd.Bytes("ip4", 4)
		in = verifnd.HostPort(ip, false, "", "", false, true, port)
	case 1: // [v6]:port
		ip = verifnd.Bytes("ip6", 16)
		in = verifnd.HostPort(ip, false, "", "", true, true, port)
	case 2: // [v6%zone]:port
		ip = verifnd.Bytes("ip6", 16)
		zone = "eth0"
		in = verifnd.HostPort(ip, false, zone, "", true, true, port)
	case 3: // [::ffff:v4]:port
		ip = verifnd.Bytes("ip4", 4)
		in = verifnd.HostPort(ip, true, "", "", true, true, port)
	case 4: // [v4]:port
		ip = verifnd.Bytes("ip4", 4)
		in = verifnd.HostPort(ip, false, "", "", true, true, port)
	case 5: // :port (empty host)
		in = verifnd.HostPort(nil, false, "", "", false, true, port)
	case 6: // bare v4
		ip = verifnd.Bytes("ip4", 4)
		in = verifnd.HostPort(ip, false, "", "", false, false, "")
	case 7: // bare v6
		ip = verifnd.Bytes("ip6", 16)
		in = verifnd.HostPort(ip, false, "", "", false, false, "")
	case 8: // [v6] without port
		ip = verifnd.Bytes("ip6", 16)
		in = verifnd.HostPort(ip, false, "", "", true, false, "")
	}
	if len(ip) == 16 {
		// bound: v6 literals are not IPv4-mapped (those print as dotted quads: form 0/3 cover them)
		verifnd.Cut("v6-literal-not-v4-mapped", verifnd.Or(ip[0] != 0, ip[1] != 0))
	}
	c := &RegConfig{}
	var block, allow []verifPolicyNet
	mode := verifnd.Choose("policy", 3) // none, blocklist, allowlist(+blocklist)
	nnets := 1
	if verifnd.Thorough() {
		nnets = 2 // thorough: two networks per list (order, overlap, mixed families)
	}
	if mode >= 1 {
		c.covertBlocklistSubnets, block = verifPolicyNets("block", nnets)
	}
	if mode == 2 {
		c.covertAllowlistSubnets, allow = verifPolicyNets("allow", nnets)
		c.enableCovertAllowlist = true
	}
	verifnd.Finding("C06-F1", form == 5)

	out, _ := c.ParseOrResolveBlocklisted(in) // (the lookup flag only feeds a statistics counter)
	if out == "" {
		verifnd.Reach("C06.rejected")
		// a well-formed permitted literal must be accepted
		if (form == 0 || form == 1) && verifPortOK(port) {
			ip16 := net.IP(ip).To16()
			blocked := false
			for _, sp := range block {
				blocked = verifnd.Or(blocked, verifIn(ip16, sp))
			}
			if mode == 2 {
				blocked = true
				for _, sp := range allow {
					blocked = verifnd.And(blocked, !verifIn(ip16, sp))
				}
			}
			verifnd.Assert(blocked, "C06.permitted-literal-accepted")
		}
		return
	}
	rip, rzone, rport, ok := verifnd.SplitResult(out)
	verifnd.Assert(ok, "C06.result-is-literal-ip-port")
	if !ok {
		return
	}
	verifnd.Assert(verifPortOK(rport) && rport == port, "C06.result-port-decimal-16bit")
	verifnd.Assert(verifnd.BytesEq(rip, net.IP(ip).To16()) && rzone == zone, "C06.result-address-is-the-given-literal")
	for _, sp := range block {
		if mode == 1 {
			verifnd.Assert(!verifIn(rip, sp), "C06.result-outside-blocklist")
		}
	}
	if mode == 2 {
		inAllow := false
		for _, sp := range allow {
			inAllow = verifnd.Or(inAllow, verifIn(rip, sp))
		}
		verifnd.Assert(inAllow, "C06.result-inside-allowlist")
	}
	if form == 0 || form == 1 {
		verifnd.Assert(out == in, "C06.permitted-literal-unchanged")
	}
	verifnd.Reach("C06.accepted")
}

// VerifC06Names: host names - the domain patterns are applied, the name is
// resolved exactly once, and the literal that was checked is the one returned.
// verif:replay=model
func VerifC06Names() {
	verifnd.Sequential()
	names := []string{"ok.example", "blocked.example", "sub.blocked.example"}
	name := names[verifnd.Choose("name", len(names))]
	port := verifPorts[verifnd.Choose("port", 4)]
	c := &RegConfig{}
	c.covertBlocklistDomains = []*regexp.Regexp{regexp.MustCompile(`(^|\.)blocked\.example$`)}
	var block []verifPolicyNet
	if verifnd.Bool("blocklist") {
		c.covertBlocklistSubnets, block = verifPolicyNets("block", 1)
	}
	in := verifnd.HostPort(nil, false, "", name, false, true, port)
	out, lookup := c.ParseOrResolveBlocklisted(in)
	if out == "" {
		verifnd.Reach("C06.names.rejected")
		verifnd.Assert(verifnd.ResolveCount() <= 1, "C06.names.resolved-at-most-once")
		return
	}
	verifnd.Assert(lookup, "C06.names.lookup-reported")
	verifnd.Assert(name == "ok.example", "C06.names.blocked-domain-rejected")
	verifnd.Assert(verifnd.ResolveCount() == 1, "C06.names.resolved-exactly-once")
	rip, _, rport, ok := verifnd.SplitResult(out)
	verifnd.Assert(ok && rport == port && verifPortOK(rport), "C06.names.result-is-literal-ip-port")
	if ok {
		verifnd.Assert(verifnd.BytesEq(rip, verifnd.LastResolved()), "C06.names.result-is-the-checked-answer")
		for _, sp := range block {
			verifnd.Assert(!verifIn(rip, sp), "C06.names.result-outside-blocklist")
		}
	}
	verifnd.Reach("C06.names.accepted")
}

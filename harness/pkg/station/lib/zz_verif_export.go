package lib

import (
	"github.com/refraction-networking/conjure/pkg/phantoms"
	"github.com/refraction-networking/conjure/pkg/station/geoip"
	pb "github.com/refraction-networking/conjure/proto"
)

// VerifNewManager builds a registration manager without touching the
// environment (no files, no Redis, no liveness probes): for harnesses in other
// packages that feed forwarded messages to "a station".
func VerifNewManager() *RegistrationManager {
	w := uint32(1)
	sel := &phantoms.PhantomIPSelector{Networks: map[uint]*phantoms.SubnetConfig{
		1: {WeightedSubnets: []*pb.PhantomSubnets{{Weight: &w, Subnets: []string{"192.0.2.0/24", "2001:db8::/64"}}}},
	}}
	return &RegistrationManager{
		RegConfig:         &RegConfig{EnableIPv4: true, EnableIPv6: true},
		RegistrationStats: newRegistrationStats(),
		Logger:            verifLogger(),
		registeredDecoys:  NewRegisteredDecoys(),
		PhantomSelector:   sel,
		GeoIP:             &geoip.EmptyDatabase{},
	}
}

package lib

import (
	"io"
	"net"
	"time"

	"github.com/refraction-networking/conjure/internal/verifnd"
	"github.com/refraction-networking/conjure/pkg/phantoms"
	"github.com/refraction-networking/conjure/pkg/station/geoip"
	pb "github.com/refraction-networking/conjure/proto"
	"google.golang.org/protobuf/proto"
	"google.golang.org/protobuf/types/known/anypb"
)

// VerifNewManager builds a registration manager without touching the
// environment (no files, no Redis, no liveness probes): for harnesses in other
// packages that feed forwarded messages to "a station".
func VerifNewManager() *RegistrationManager {
	w := uint32(1)
	sel := &phantoms.PhantomIPSelector{Networks: map[uint]*phantoms.SubnetConfig{
		1: {WeightedSubnets: []*pb.PhantomSubnets{{Weight: &w, Subnets: []string{"192.0.2.0/24", "2001:db8::/64"}}}},
	}}
	return &RegistrationManager{
		RegConfig:         &RegConfig{EnableIPv4: true, EnableIPv6: true},
		RegistrationStats: newRegistrationStats(),
		Logger:            verifLogger(),
		registeredDecoys:  NewRegisteredDecoys(),
		PhantomSelector:   sel,
		GeoIP:             &geoip.EmptyDatabase{},
	}
}

// ---- exported scripted connection for harnesses in other packages ----

type VerifRead struct {
	N   int
	Err error
}

type VerifWrite struct {
	Accept int // bytes accepted (-1: all)
	Err    error
}

// VerifScriptConn is a scripted, fault-injecting net.Conn.  When its read
// script is exhausted it behaves like a silent peer: Read blocks until the
// deadline and then fails with a timeout error, as net.Conn documents.
type VerifScriptConn struct {
	Name        string
	Reads       []VerifRead
	Rpos        int
	Data        [][]byte // optional fixed contents per read (else symbolic)
	ReadData    []byte
	Writes      []VerifWrite
	Wpos        int
	Written     []byte
	WriteCalls  int
	Closed      int
	CloseErr    error
	Deadlines   int
	DeadlineErr int
	DeadlineE   error
	Deadline    time.Time
	Remote      net.Addr
	TimedOut    bool
	pending     []byte // rest of a segment that did not fit the caller's buffer
	pendingErr  error
}

func (c *VerifScriptConn) Read(p []byte) (int, error) {
	if c.Closed > 0 {
		return 0, net.ErrClosed
	}
	if len(c.pending) > 0 {
		n := copy(p, c.pending)
		c.ReadData = append(c.ReadData, c.pending[:n]...)
		c.pending = c.pending[n:]
		if len(c.pending) == 0 {
			err := c.pendingErr
			c.pendingErr = nil
			return n, err
		}
		return n, nil
	}
	if c.Rpos >= len(c.Reads) {
		if c.Deadline.IsZero() {
			return 0, io.EOF // no deadline: a silent peer would block for ever; end the stream instead
		}
		time.Sleep(time.Until(c.Deadline))
		c.TimedOut = true
		return 0, VerifErr(3, "read")
	}
	r := c.Reads[c.Rpos]
	var data []byte
	if c.Rpos < len(c.Data) && c.Data[c.Rpos] != nil {
		data = c.Data[c.Rpos][:r.N]
	} else {
		data = verifnd.Bytes(c.Name+".data", r.N)
		for _, b := range data {
			verifnd.Prefer(b == 0) // report the simplest stream of the counterexample's class
		}
	}
	c.Rpos++
	n := copy(p, data)
	c.ReadData = append(c.ReadData, data[:n]...)
	if n < len(data) {
		// a segment larger than the caller's buffer: the rest stays in the socket buffer
		c.pending, c.pendingErr = data[n:], r.Err
		return n, nil
	}
	return n, r.Err
}

func (c *VerifScriptConn) Write(p []byte) (int, error) {
	c.WriteCalls++
	if c.Closed > 0 {
		return 0, net.ErrClosed
	}
	w := VerifWrite{Accept: -1}
	if c.Wpos < len(c.Writes) {
		w = c.Writes[c.Wpos]
	}
	c.Wpos++
	n := len(p)
	if w.Accept >= 0 && w.Accept < n {
		n = w.Accept
	}
	c.Written = append(c.Written, p[:n]...)
	return n, w.Err
}

func (c *VerifScriptConn) Close() error {
	c.Closed++
	return c.CloseErr
}
func (c *VerifScriptConn) LocalAddr() net.Addr { return verifStationAddr }
func (c *VerifScriptConn) RemoteAddr() net.Addr {
	if c.Remote != nil {
		return c.Remote
	}
	return verifClientAddr
}
func (c *VerifScriptConn) SetDeadline(t time.Time) error {
	i := c.Deadlines
	c.Deadlines++
	if i == c.DeadlineErr && c.DeadlineE != nil {
		return c.DeadlineE
	}
	c.Deadline = t
	return nil
}
func (c *VerifScriptConn) SetReadDeadline(t time.Time) error  { return c.SetDeadline(t) }
func (c *VerifScriptConn) SetWriteDeadline(t time.Time) error { return c.SetDeadline(t) }

// VerifErr builds one of the error shapes of the network stack (see verifErr).
func VerifErr(kind int, op string) error { return verifErr(kind, op) }

// VerifSetClient changes the scripted client endpoint.
func VerifSetClient(ip string) { verifClientAddr = &net.TCPAddr{IP: net.ParseIP(ip), Port: 54321} }

// VerifAdmit builds, tracks and validates a registration for the given secret
// the way the ingest pipeline does (without liveness probe and covert checks).
func (rm *RegistrationManager) VerifAdmit(secret []byte, tt pb.TransportType, params *anypb.Any, covert string, v6 ...bool) *DecoyRegistration {
	src := pb.RegistrationSource_API
	want6 := len(v6) > 0 && v6[0]
	w := &pb.C2SWrapper{SharedSecret: secret, RegistrationSource: &src, RegistrationAddress: net.ParseIP("203.0.113.77").To4(),
		RegistrationPayload: &pb.ClientToStation{V4Support: proto.Bool(!want6), V6Support: proto.Bool(want6), Transport: &tt, TransportParams: params,
			DecoyListGeneration: proto.Uint32(1), ClientLibVersion: proto.Uint32(4), CovertAddress: &covert}}
	reg, err := rm.NewRegistrationC2SWrapper(w, want6)
	if err != nil || reg == nil {
		return nil
	}
	if rm.TrackRegistration(reg) != nil {
		return nil
	}
	rm.AddRegistration(reg)
	return reg
}

// VerifTimeoutUsed reports whether the registration's timeout record is marked used.
func (rm *RegistrationManager) VerifTimeoutUsed(reg *DecoyRegistration) bool {
	to := verifTimeoutOf(rm.registeredDecoys, reg)
	return to != nil && to.status == regStatusUsed
}

// VerifParse runs a forwarded registration message through the ingest parser
// (wire encoding by the protobuf runtime) and returns the registrations it builds.
func (rm *RegistrationManager) VerifParse(w *pb.C2SWrapper) ([]*DecoyRegistration, error) {
	b, err := proto.Marshal(w)
	if err != nil {
		return nil, err
	}
	return rm.parseRegMessage(b)
}

// VerifNewIngestManager: a manager on which the whole ingest pipeline can run
// (scripted liveness tester answering "not live", no-op detector announcements,
// phantom and covert blocklists configured); transports are added by the caller.
func VerifNewIngestManager() *RegistrationManager {
	var ann []verifAnnouncement
	rm := verifManager(&verifLiveness{}, &ann)
	rm.LivenessTester = &verifQuietLiveness{}
	rm.registeredDecoys.transports = map[pb.TransportType]Transport{}
	rm.EnableIPv4, rm.EnableIPv6 = true, true
	return rm
}

// VerifIngest runs one parsed registration through the ingest worker's steps.
func (rm *RegistrationManager) VerifIngest(reg *DecoyRegistration) { rm.ingestRegistration(reg) }

// a liveness tester that always answers "not live" (no choice points)
type verifQuietLiveness struct{ verifLiveness }

func (*verifQuietLiveness) PhantomIsLive(addr string, port uint16) (bool, error) { return false, nil }

// VerifBuild builds a registration for the secret (not tracked yet).
func (rm *RegistrationManager) VerifBuild(secret []byte, tt pb.TransportType, params *anypb.Any) *DecoyRegistration {
	src := pb.RegistrationSource_API
	covert := "192.0.2.99:443"
	w := &pb.C2SWrapper{SharedSecret: secret, RegistrationSource: &src, RegistrationAddress: net.ParseIP("203.0.113.77").To4(),
		RegistrationPayload: &pb.ClientToStation{V4Support: proto.Bool(true), V6Support: proto.Bool(false), Transport: &tt, TransportParams: params,
			DecoyListGeneration: proto.Uint32(1), ClientLibVersion: proto.Uint32(4), CovertAddress: &covert}}
	reg, err := rm.NewRegistrationC2SWrapper(w, false)
	if err != nil {
		return nil
	}
	return reg
}

// VerifAge makes the tracked registration `age` old (rewrites the registration
// time of its timeout record).
func (rm *RegistrationManager) VerifAge(reg *DecoyRegistration, age time.Duration) bool {
	to := verifTimeoutOf(rm.registeredDecoys, reg)
	if to == nil {
		return false
	}
	to.registrationTime = time.Now().Add(-age)
	return true
}

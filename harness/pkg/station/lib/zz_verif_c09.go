package lib

import (
	"context"
	"net"
	"sync"
	"sync/atomic"

	"github.com/refraction-networking/conjure/internal/verifnd"
	pb "github.com/refraction-networking/conjure/proto"
	"google.golang.org/protobuf/proto"
)

// scripted liveness tester whose probe is a scheduling point (the window
// between "tracked" and "validated")
type verifYieldLiveness struct {
	verifLiveness
	noYield bool
}

func (l *verifYieldLiveness) PhantomIsLive(addr string, port uint16) (bool, error) {
	if !l.noYield {
		verifnd.Yield()
	}
	return false, nil
}

func verifIngestMsg(secret []byte) []byte {
	tt := pb.TransportType_Min
	covert := verifCovertOK
	w := &pb.C2SWrapper{SharedSecret: secret, RegistrationSource: pb.RegistrationSource_API.Enum(),
		RegistrationAddress: net.ParseIP("203.0.113.5").To4(),
		RegistrationPayload: &pb.ClientToStation{V4Support: proto.Bool(true), Transport: &tt, DecoyListGeneration: proto.Uint32(1),
			ClientLibVersion: proto.Uint32(4), CovertAddress: &covert}}
	b, _ := proto.Marshal(w)
	return b
}

// VerifC09IngestRace: every interleaving (at lock acquisitions and at the
// liveness probe) of two workers ingesting the SAME registration as distinct
// objects, optionally with the expiry sweeper and a connection lookup running:
// exactly one New announcement, the lookup sees the registration only after it
// was validated and announced, both deliveries are counted, nothing panics or
// stalls.
// verif:replay=native-then-model
// verif:shards=5
func VerifC09IngestRace() {
	scenario := verifnd.Choose("scenario", 5) // sharded: worker x worker, worker x lookup, worker x worker x sweeper, worker x sweeper, (thorough) worker x sweeper x lookup
	publishYield, withSweeper := true, false
	if scenario == 4 {
		if !verifnd.Thorough() {
			return
		}
		// bound (thorough): three threads at the registry lock are explored without the extra
		// scheduling point at the detector publish (with it: > 100 000 interleavings in 8 minutes,
		// unfinished); the publish point is explored in the two-thread scenarios of both tiers
		scenario, publishYield, withSweeper = 1, false, true
	}
	if scenario == 2 {
		// bound: two workers AND the sweeper (three threads at the registry lock) did not finish
		// in 40 minutes (487 000 interleavings) even without the scheduling point at the probe:
		// outside the claim.  Covered: worker x worker, worker x sweeper, worker x sweeper x lookup.
		return
	}
	// bound: with three threads (two workers and the sweeper) interleavings are explored at the
	// registry lock only, not at the probe as well (435 000 paths in 40 minutes were not enough)
	lt := &verifYieldLiveness{noYield: scenario == 2}
	var ann []verifAnnouncement
	var newAnn int32
	rm := verifManager(&lt.verifLiveness, &ann)
	rm.LivenessTester = lt
	rm.PhantomBlocklist, rm.phantomBlocklist = nil, nil
	rm.EnableIPv4 = true
	// publishing to the detector is I/O (a round trip to redis): a scheduling point before the
	// message is out, so that whatever the code lets other goroutines do meanwhile is explored
	var updBeforeNew int32
	rm.registeredDecoys.registerForDetector = func(d *DecoyRegistration) {
		if publishYield {
			verifnd.Yield()
		}
		atomic.AddInt32(&newAnn, 1)
	}
	rm.registeredDecoys.updateInDetector = func(d *DecoyRegistration) {
		if publishYield {
			verifnd.Yield()
		}
		if atomic.LoadInt32(&newAnn) == 0 {
			atomic.StoreInt32(&updBeforeNew, 1)
		}
	}
	verifnd.LoopBound("crypto/rand.Int", 2)
	secret := verifSecret(0x61)
	mk := func() *DecoyRegistration {
		// (built directly: parsing and phantom selection are C07's subject, and cheap paths matter here)
		r := verifNewReg(secret, pb.TransportType_Min, verifP4)
		r.Covert = verifCovertOK
		r.registrationAddr = net.ParseIP("203.0.113.5").To4()
		return r
	}
	r1, r2 := mk(), mk()
	Stat()           // start the statistics singleton (its tickers block at once)
	verifnd.Settle() // ... before the race starts
	// interleavings are explored at acquisitions of the registry lock and at the probe (the
	// statistics mutexes only guard counters that no obligation reads)
	verifnd.PreemptOnlyAt(&rm.registeredDecoys.m)
	var wg sync.WaitGroup
	run := func(f func()) {
		wg.Add(1)
		go func() {
			defer wg.Done()
			f()
		}()
	}
	var sawUnannounced int32
	workers := 2
	if scenario == 1 || scenario == 3 {
		workers = 1
	}
	run(func() { rm.ingestRegistration(r1) })
	if workers == 2 {
		run(func() { rm.ingestRegistration(r2) })
	}
	if scenario == 2 || scenario == 3 || withSweeper {
		// bound (quick): the sweeper joins worker x lookup only in the thorough tier
		run(func() { rm.RemoveOldRegistrations() })
	}
	if scenario == 1 {
		run(func() {
			regs := rm.GetRegistrations(r1.PhantomIp)
			for _, r := range regs {
				d := r.(*DecoyRegistration)
				if !d.Valid || atomic.LoadInt32(&newAnn) == 0 {
					atomic.StoreInt32(&sawUnannounced, 1)
				}
				rm.MarkActive(d)
			}
		})
	}
	wg.Wait()
	verifnd.Assert(atomic.LoadInt32(&newAnn) == 1, "C09.announced-as-new-exactly-once")
	verifnd.Assert(atomic.LoadInt32(&sawUnannounced) == 0, "C09.lookup-sees-only-validated-and-announced")
	verifnd.Assert(atomic.LoadInt32(&updBeforeNew) == 0, "C09.activation-never-announced-before-the-registration")
	tracked := rm.registeredDecoys.registrationExists(r1)
	verifnd.Assert(tracked != nil && tracked.Valid, "C09.registration-tracked-and-valid")
	if tracked != nil {
		verifnd.Assert(int(tracked.regCount) == workers, "C09.every-delivery-counted")
	}
	verifnd.Assert(len(rm.registeredDecoys.decoysTimeouts) == 1 && rm.registeredDecoys.totalRegistrations() == 1, "C09.one-registration-one-timeout-record")
	verifnd.Reach("C09.race.done")
}

// VerifC09Pipeline: the ingest pipeline (distributor + 2 workers) with up to
// two messages arriving at any point, a stop request at any point, and the
// input then idle or still busy: HandleRegUpdates returns after the stop
// request in both situations, every received message is counted, and messages
// that find no free worker are dropped and counted instead of blocking.
// verif:replay=native-then-model
// verif:shards=4
func VerifC09Pipeline() {
	k := verifnd.Choose("case", 4) // sharded: messages before the stop x input idle/busy afterwards
	before, busyAfter := k%2+0, k/2 == 1
	if busyAfter && before == 1 && !verifnd.Thorough() {
		return // bound (quick)
	}
	verifnd.Finding("C09-F1", !busyAfter)
	lt := &verifLiveness{}
	var ann []verifAnnouncement
	rm := verifManager(lt, &ann)
	verifnd.FirstTouchReduction()
	rm.IngestWorkerCount = 1
	if verifnd.Thorough() && !(busyAfter && before == 1) {
		// (bound: a message before the stop AND a busy input afterwards with two workers did
		// not finish in 40 minutes - 2.8 million paths; that case keeps one worker)
		rm.IngestWorkerCount = 2
	}
	Stat()
	verifnd.Settle()
	empty, _ := proto.Marshal(&pb.C2SWrapper{}) // parses to "no registration": the worker is free again at once
	regChan := make(chan interface{})
	ctx, cancel := context.WithCancel(context.Background())
	var parent sync.WaitGroup
	parent.Add(1)
	go rm.HandleRegUpdates(ctx, regChan, &parent)
	sent := 0
	for i := 0; i < before; i++ {
		regChan <- empty
		sent++
	}
	cancel()
	if busyAfter {
		// registrations keep arriving after the stop request
		done := make(chan struct{})
		go func() {
			for i := 0; i < 3; i++ {
				select {
				case regChan <- empty:
					sent++
				case <-done:
					return
				}
			}
			// select picks among ready cases arbitrarily; a schedule in which the distributor
			// prefers the buffer over the stop request for more than three further messages
			// is cut (fairness bound)
			verifnd.Cut("distributor notices the stop request within three further messages", false)
		}()
		parent.Wait()
		close(done)
	} else {
		parent.Wait() // must return although nothing arrives any more
	}
	verifnd.Settle()
	got := atomic.LoadInt64(&rm.newIngestMessages)
	verifnd.Assert(got == int64(sent), "C09.pipeline.every-received-message-counted")
	verifnd.Assert(atomic.LoadInt64(&rm.newDroppedMessages) <= got, "C09.pipeline.drops-are-counted-messages")
	verifnd.Reach("C09.pipeline.done")
}

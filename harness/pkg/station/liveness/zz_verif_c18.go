package liveness

import (
	"errors"
	"sync"
	"time"

	"github.com/refraction-networking/conjure/internal/verifnd"
)

const (
	verifLiveLifetime    = time.Hour
	verifNonLiveLifetime = 10 * time.Minute
)

type verifMeasured struct {
	has     bool
	verdict bool
	age     time.Duration
}

func verifShift(c cache, d time.Duration) {
	switch c := c.(type) {
	case *mapCache:
		if c != nil {
			for _, e := range c.ipCache {
				e.cachedTime = e.cachedTime.Add(-d)
			}
		}
	case *lruCache:
		if c != nil {
			for _, e := range c.ipCache {
				e.cachedTime = e.cachedTime.Add(-d)
			}
		}
	}
}

// VerifC18Histories: every history (bounded) of liveness queries over a small
// address set with arbitrary probe verdicts, arbitrary time advances and
// expiry clean-ups, for every cache configuration (off / map / LRU with
// capacity 1 or 2, independently for live and non-live verdicts).
// verif:shards=12
func VerifC18Histories() {
	verifnd.Sequential()
	k := verifnd.Choose("conf", 12)   // sharded
	liveKind, nonLiveKind := k%4, k/4 // live: off, cap0, cap1, cap2; non-live: off, cap0, cap1
	conf := &Config{}
	if liveKind > 0 {
		conf.CacheDuration = "1h"
		conf.CacheCapacity = liveKind - 1
	}
	if nonLiveKind > 0 {
		conf.CacheDurationNonLive = "10m"
		conf.CacheCapacityNonLive = nonLiveKind - 1
	}
	if liveKind == 0 && nonLiveKind == 0 {
		return // uncached tester: nothing to check
	}
	verifnd.Finding("C18-F1", conf.CacheDurationNonLive != "" && conf.CacheCapacityNonLive > 0 && conf.CacheCapacity == 0)
	probes := 0
	var verdict bool
	blt := &CachedLivenessTester{stats: &stats{}}
	blt.phantomIsLive = func(address string) (bool, error) {
		probes++
		if verdict {
			return true, ErrLiveHost
		}
		return false, NotLive
	}
	verifnd.Assert(blt.Init(conf) == nil, "C18.init")
	addrs := []string{"192.0.2.1", "192.0.2.2", "192.0.2.3"}
	na := 2
	steps := 3
	if verifnd.Thorough() {
		na, steps = 3, 4
	}
	ghost := make([]verifMeasured, len(addrs))
	for s := 0; s < steps; s++ {
		op := verifnd.Choose("op", na+2)
		switch {
		case op < na: // query
			g := &ghost[op]
			verdict = verifnd.Bool("verdict")
			before := probes
			live, err := blt.PhantomIsLive(addrs[op], 443)
			if errors.Is(err, ErrCachedPhantom) {
				verifnd.Assert(probes == before, "C18.cached-answer-does-not-probe")
				life := verifNonLiveLifetime
				if live {
					life = verifLiveLifetime
				}
				verifnd.Assert(g.has && g.verdict == live, "C18.cached-verdict-is-last-measured")
				verifnd.Assert(g.has && g.age < life, "C18.cached-verdict-is-fresh")
				verifnd.Reach("C18.cache-hit")
			} else {
				verifnd.Assert(probes == before+1, "C18.miss-probes-exactly-once")
				verifnd.Assert(live == verdict, "C18.miss-returns-probe-verdict")
				g.has, g.verdict, g.age = true, verdict, 0
				verifnd.Reach("C18.probed")
			}
		case op == na: // time passes
			d := time.Duration(verifnd.Range("advance", 0, int(2*time.Hour)))
			for i := range ghost {
				if ghost[i].has {
					ghost[i].age += d
					// ages exactly at a lifetime are left open by the property
					verifnd.Assume(ghost[i].age != verifLiveLifetime)
					verifnd.Assume(ghost[i].age != verifNonLiveLifetime)
				}
			}
			verifShift(blt.ipCacheLive, d)
			verifShift(blt.ipCacheNonLive, d)
		case op == na+1:
			blt.ClearExpiredCache()
		}
		// the bound holds after every step, for the cache of each verdict
		if conf.CacheDuration != "" && conf.CacheCapacity > 0 {
			verifnd.Assert(blt.ipCacheLive.Len() <= conf.CacheCapacity, "C18.live-cache-bounded")
		}
		if conf.CacheDurationNonLive != "" && conf.CacheCapacityNonLive > 0 {
			verifnd.Assert(blt.ipCacheNonLive.Len() <= conf.CacheCapacityNonLive, "C18.nonlive-cache-bounded")
		}
	}
	verifnd.Reach("C18.done")
}

// VerifC18Concurrent: concurrent use of the bounded (LRU) verdict cache, capacity 1 or 2: two
// goroutines caching verdicts for different addresses (what two concurrent queries of uncached
// addresses do after their probes), optionally a third one looking the first address up (served
// and refreshed, or not, depending on the schedule), under every interleaving at the cache's own
// lock and at the LRU list's lock (incl. the eviction callback).  When everybody has returned
// the cache holds no more than its capacity, and everything it still serves is an entry the LRU
// list accounts for (an evicted entry is never served).
// Bound: the tester's statistics counters and the probe itself are not part of the interleaving.
// verif:replay=native-then-model
// verif:shards=4
func VerifC18Concurrent() {
	k := verifnd.Choose("case", 4) // sharded: capacity 1/2 x third goroutine
	capacity, third := 1+k%2, k/2 == 1
	rounds := 1
	if !verifnd.Symbolic() {
		rounds = 5000 // native replay cannot force the schedule
	}
	for r := 0; r < rounds; r++ {
		lc := newLRUCache(time.Hour, capacity)
		if lc == nil {
			return
		}
		addrs := []string{"192.0.2.1", "192.0.2.2"}
		n := 2
		if third {
			n = 3
		}
		var wg sync.WaitGroup
		for i := 0; i < n; i++ {
			wg.Add(1)
			go func(i int) {
				defer wg.Done()
				if i < 2 {
					lc.Add(addrs[i], &cacheElement{cachedTime: time.Now()})
				} else {
					lc.Lookup(addrs[0])
				}
			}(i)
		}
		if verifnd.Symbolic() {
			verifnd.Quiesce() // the main goroutine takes no part in the interleaving
		} else {
			wg.Wait()
		}
		bounded := lc.Len() <= capacity
		accounted := true
		lc.m.RLock()
		for key := range lc.ipCache {
			if !lc.lru.Contains(key) {
				accounted = false
			}
		}
		lc.m.RUnlock()
		if rounds > 1 && r < rounds-1 && bounded && accounted {
			continue
		}
		verifnd.Assert(bounded, "C18.concurrent.cache-bounded-once-quiescent")
		verifnd.Assert(accounted, "C18.concurrent.every-served-entry-is-accounted-for-by-the-lru-list")
		break
	}
	verifnd.Reach("C18.concurrent.done")
}

package liveness

import (
	"os"

	"github.com/refraction-networking/conjure/internal/verifnd"
	"github.com/refraction-networking/conjure/pkg/station/log"
)

// VerifC19LivenessPrinters: for every liveness configuration the station
// accepts at start-up (each cache off / unbounded / bounded, capacities -1, 0, 1, 2
// - a capacity is a plain integer of the configuration file, a negative one is
// accepted and means "default size"),
// the tester's statistics printers - run by the 5-second stats tick - never
// panic, on a fresh tester and after queries.
func VerifC19LivenessPrinters() {
	verifnd.Sequential()
	conf := &Config{}
	live, nonLive := verifnd.Choose("live", 5), verifnd.Choose("nonlive", 5) // off, cap 0, 1, 2, -1
	caps := []int{0, 0, 1, 2, -1}
	if live > 0 {
		conf.CacheDuration = "1h"
		conf.CacheCapacity = caps[live]
	}
	if nonLive > 0 {
		conf.CacheDurationNonLive = "10m"
		conf.CacheCapacityNonLive = caps[nonLive]
	}
	verifnd.Finding("C19-F2", live > 0 && nonLive == 0)
	t, err := New(conf)
	if err != nil {
		// verif:optional-reach C19.liveness.rejected
		verifnd.Reach("C19.liveness.rejected")
		return // not an accepted configuration
	}
	logger := log.New(os.Stdout, "[VERIF] ", 0)
	if c, ok := t.(*CachedLivenessTester); ok && verifnd.Bool("after-queries") {
		verdict := false
		c.phantomIsLive = func(string) (bool, error) { return verdict, nil }
		_, _ = c.PhantomIsLive("192.0.2.1", 443)
		verdict = true
		_, _ = c.PhantomIsLive("192.0.2.2", 443)
		_, _ = c.PhantomIsLive("192.0.2.1", 443)
	}
	t.PrintStats(logger)
	t.PrintAndReset(logger)
	t.PrintAndReset(logger)
	verifnd.Reach("C19.liveness.printed")
}

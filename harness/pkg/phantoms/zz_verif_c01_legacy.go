package phantoms

import (
	"net"

	v0 "github.com/refraction-networking/conjure/internal/compatability/v0"
	v1 "github.com/refraction-networking/conjure/internal/compatability/v1"
	"github.com/refraction-networking/conjure/internal/verifnd"
	pb "github.com/refraction-networking/conjure/proto"
)

// VerifC01LegacyAgreement: clients of library versions 0 and 1.  The frozen
// copies of those clients' selection code kept in internal/compatability/v0 and
// /v1 (the published algorithms of the versions still in the field) against the
// station's Select for the same seed, generation and family, on a configuration
// of two weighted groups (arbitrary 2-bit weights, arbitrary port flags) over
// networks with arbitrary host-independent bits: whenever the old client
// obtains a phantom, the station derives the same address; and the station
// never panics where the client reports an error.  math/rand as a deterministic
// function of (seed, draws since seeding); the 128-bit remainder by the address
// total as an uninterpreted function (both sides compute it on the same
// operands).  Bound: seeds whose varint encoding is one byte.
// verif:shards=4
func VerifC01LegacyAgreement() {
	k := verifnd.Choose("case", 4) // sharded: library version x family
	libver, v6 := uint(k%2), k/2 == 1
	verifnd.AbstractBigMod()
	seed := verifnd.Bytes("seed", 16)
	verifnd.Cut("legacy-seed-varint-is-one-byte", seed[0] < 0x80)
	if verifnd.Bool("seed-below-the-address-total") {
		// exact sub-case: the seed, read as a number, does not exceed the address total, so no
		// remainder is taken and a counterexample replays natively (with the abstraction one
		// that hinges on the remainder's value may not)
		zeros := 8 // IPv6: the /64 alone has 2^64 addresses
		if !v6 {
			zeros = 15 // IPv4: 256 + 16 addresses
		}
		for i := 0; i < zeros; i++ {
			verifnd.Assume(seed[i] == 0)
		}
	}
	specs := [][]string{{"192.0.2.0/24", "2001:db8:1::/96"}, {"198.51.100.0/28", "2001:db8:2::/64"}}
	var groups []*pb.PhantomSubnets
	for _, nets := range specs {
		w := uint32(verifnd.U8("weight") & 3)
		rnd := verifnd.Bool("randomize-dst-port")
		groups = append(groups, &pb.PhantomSubnets{Weight: &w, Subnets: nets, RandomizeDstPort: &rnd})
	}
	verifnd.Assume(groups[0].GetWeight()+groups[1].GetWeight() > 0) // (all weights zero: C14)
	list := &pb.PhantomSubnetsList{WeightedSubnets: groups}
	sel := &PhantomIPSelector{Networks: map[uint]*SubnetConfig{1: {WeightedSubnets: groups}}}

	var cip *net.IP
	var cerr error
	if libver == 0 {
		f := v0.V4Only
		if v6 {
			f = v0.V6Only
		}
		cip, cerr = v0.SelectPhantom(seed, list, f, true)
	} else {
		f := v1.V4Only
		if v6 {
			f = v1.V6Only
		}
		cip, cerr = v1.SelectPhantom(seed, list, f, true)
	}
	sip, serr := sel.Select(seed, 1, libver, v6)
	if cerr != nil || cip == nil {
		verifnd.Reach("C01.legacy.client-has-no-phantom")
		return
	}
	verifnd.Assert(serr == nil && sip != nil && sip.IP() != nil, "C01.legacy.station-selects-where-the-client-does")
	if serr == nil && sip != nil && sip.IP() != nil {
		verifnd.Assert(verifnd.BytesEq(*sip.IP(), *cip), "C01.legacy.station-and-old-client-agree")
	}
	verifnd.Reach("C01.legacy.agree")
}

// VerifC01GenerationHistory: C01's "the derivation is a fixed function of those inputs" for the
// phantom and the port-randomisation flag that decides the destination port (443 or the seeded
// port): the exploration of VerifC14History under C01 - two ClientConf generations that list the
// same networks with different weights and flags, selections for one generation after the
// other: what the station derives for a registration is what that registration's generation
// alone dictates (which is what the client, holding only that generation, computes), whatever
// the station derived before for clients of another generation.
// verif:shards=2
func VerifC01GenerationHistory() { VerifC14History() }

package phantoms

import (
	"bytes"
	"net"
	"sync"

	"github.com/refraction-networking/conjure/internal/verifnd"
	pb "github.com/refraction-networking/conjure/proto"
)

type verifNetSpec struct {
	ip    []byte
	ones  int
	v6    bool
	group int
}

var verifOnes4 = []int{0, 1, 8, 23, 24, 31, 32}
var verifOnes6 = []int{0, 1, 64, 96, 127, 128}

// verifConfig builds an arbitrary subnet configuration: ng weight groups with
// up to two CIDRs each; family and prefix length are enumerated (from the
// representative sets above), network bits, weights and flags are symbolic.
func verifConfig(maxGroups, maxNets int) (*SubnetConfig, []verifNetSpec, []*pb.PhantomSubnets) {
	ng := 1 + verifnd.Choose("groups", maxGroups)
	var groups []*pb.PhantomSubnets
	var specs []verifNetSpec
	for g := 0; g < ng; g++ {
		w := uint32(verifnd.U8("weight")) // bound: weights 0..255
		rnd := verifnd.Bool("randomize")
		nn := 1 + verifnd.Choose("nets", maxNets)
		var strs []string
		for i := 0; i < nn; i++ {
			sp := verifNetSpec{group: g}
			if verifnd.Choose("family", 2) == 1 {
				sp.v6 = true
				sp.ip = verifnd.Bytes("net6", 16)
				sp.ones = verifOnes6[verifnd.Choose("ones6", len(verifOnes6))]
			} else {
				sp.ip = verifnd.Bytes("net4", 4)
				sp.ones = verifOnes4[verifnd.Choose("ones4", len(verifOnes4))]
			}
			strs = append(strs, verifnd.CIDR(sp.ip, sp.ones))
			specs = append(specs, sp)
		}
		groups = append(groups, &pb.PhantomSubnets{Weight: &w, Subnets: strs, RandomizeDstPort: &rnd})
	}
	return &SubnetConfig{WeightedSubnets: groups}, specs, groups
}

func verifContains(sp verifNetSpec, ip net.IP) bool {
	bits := 32
	if sp.v6 {
		bits = 128
	}
	m := net.CIDRMask(sp.ones, bits)
	if len(ip) != len(m) {
		return false
	}
	ok := true
	for i := range m {
		ok = verifnd.And(ok, ip[i]&m[i] == sp.ip[i]&m[i])
	}
	return ok
}

// verifCheckResult: the result is an error or a well-formed address of the
// requested family inside one of the configured nets of that family, with that
// net's group flag.
func verifCheckResult(ip *PhantomIP, err error, v6 bool, specs []verifNetSpec, groups []*pb.PhantomSubnets, tag string) {
	if err != nil {
		verifnd.Reach("C14." + tag + ".error")
		return
	}
	verifnd.Assert(ip != nil && ip.IP() != nil, "C14."+tag+".nonnil")
	if ip == nil || ip.IP() == nil {
		return
	}
	addr := *ip.IP()
	want := 4
	if v6 {
		want = 16
	}
	verifnd.Assert(len(addr) == want, "C14."+tag+".wellformed")
	if len(addr) != want {
		return
	}
	inSome := false
	flagOK := false
	for _, sp := range specs {
		if sp.v6 != v6 {
			continue
		}
		c := verifContains(sp, addr)
		inSome = verifnd.Or(inSome, c)
		flagOK = verifnd.Or(flagOK, verifnd.And(c, ip.SupportRandomPort() == groups[sp.group].GetRandomizeDstPort()))
	}
	verifnd.Assert(inSome, "C14."+tag+".contained")
	verifnd.Assert(flagOK, "C14."+tag+".portflag")
	verifnd.Reach("C14." + tag + ".selected")
}

func verifFindings(specs []verifNetSpec, groups []*pb.PhantomSubnets, v6 bool) {
	lead := false
	for _, sp := range specs {
		if sp.v6 != v6 {
			continue
		}
		bits := 32
		if sp.v6 {
			bits = 128
		}
		m := net.CIDRMask(sp.ones, bits)
		lead = verifnd.Or(lead, sp.ip[0]&m[0] == 0)
	}
	verifnd.Finding("C14-F1", lead)
	tot := uint64(0)
	for _, g := range groups {
		tot += uint64(g.GetWeight())
	}
	verifnd.Finding("C14-F2", tot == 0)
}

// verifParsedNets turns specs into the parsed form the selection routines take
// (through the real parseSubnets, i.e. net.ParseCIDR on the printed CIDR).
func verifParsedNets(specs []verifNetSpec, flags []bool) []*phantomNet {
	var out []*phantomNet
	for i, sp := range specs {
		rnd := flags[i]
		nets, err := parseSubnets(&pb.PhantomSubnets{Subnets: []string{verifnd.CIDR(sp.ip, sp.ones)}, RandomizeDstPort: &rnd})
		verifnd.Assert(err == nil && len(nets) == 1, "C14.parse")
		out = append(out, nets...)
	}
	return out
}

func verifOneSpec(tag string, v6 bool, group int, ones4, ones6 []int) verifNetSpec {
	sp := verifNetSpec{group: group, v6: v6}
	if v6 {
		sp.ip = verifnd.Bytes(tag+"6", 16)
		sp.ones = ones6[verifnd.Choose(tag+".ones6", len(ones6))]
		// bound: one of the first two bytes is non-zero (leading-zero networks are still
		// covered through byte 0; this also excludes IPv4-mapped networks, which print as
		// dotted quads and are not a v6 CIDR an operator can write)
		verifnd.Cut("v6-net-first-two-bytes-not-both-zero", verifnd.Or(sp.ip[0] != 0, sp.ip[1] != 0))
	} else {
		sp.ip = verifnd.Bytes(tag+"4", 4)
		sp.ones = ones4[verifnd.Choose(tag+".ones4", len(ones4))]
	}
	return sp
}

// VerifC14AddrHkdf: the address step of the version >= 2 algorithm on one or two
// networks of one family (what Select hands it after the family filter): every
// representative prefix length, arbitrary network bits, arbitrary seed.
// verif:shards=4
func VerifC14AddrHkdf() {
	k := verifnd.Choose("case", 4) // sharded: family x number of nets
	v6 := k%2 == 1
	n := 1 + k/2
	var specs []verifNetSpec
	var flags []bool
	groups := []*pb.PhantomSubnets{}
	for i := 0; i < n; i++ {
		o4, o6 := verifOnes4, verifOnes6
		if i > 0 && !verifnd.Thorough() {
			o4, o6 = []int{0, 24, 32}, []int{0, 64, 128} // bound (quick): prefix lengths of the second network
		}
		sp := verifOneSpec("net", v6, i, o4, o6)
		specs = append(specs, sp)
		f := verifnd.Bool("randomize")
		flags = append(flags, f)
		ff := f
		groups = append(groups, &pb.PhantomSubnets{RandomizeDstPort: &ff})
	}
	nets := verifParsedNets(specs, flags)
	seed := verifnd.Bytes("seed", 16)
	lead := false
	for _, sp := range specs {
		bits := 32
		if v6 {
			bits = 128
		}
		lead = verifnd.Or(lead, sp.ip[0]&net.CIDRMask(sp.ones, bits)[0] == 0)
	}
	verifnd.Finding("C14-F1", lead)
	for _, sp := range specs {
		verifnd.Prefer(sp.ones >= 8 && sp.ip[0] == 0) // a witness independent of the HKDF output
	}
	verifnd.LoopBound("crypto/rand.Int", 2)
	ip, err := selectPhantomImplHkdf(seed, nets)
	verifnd.Assert(err == nil, "C14.addr.noerror") // non-empty list of valid nets: selection must succeed
	verifCheckResult(ip, err, v6, specs, groups, "addr")
}

// VerifC14WeightedHkdf: the weighted group choice of the version >= 2
// algorithm: 1-3 groups with arbitrary (8-bit) weights incl. zero and ties; the
// returned subnets are exactly those of one group with positive weight.
// verif:shards=3
func VerifC14WeightedHkdf() {
	ng := 1 + verifnd.Choose("groups", 3)
	var groups []*pb.PhantomSubnets
	strs := []string{"192.0.2.0/24", "198.51.100.0/24", "2001:db8::/64"}
	tot := uint64(0)
	for g := 0; g < ng; g++ {
		w := uint32(verifnd.U8("weight")) // bound: weights 0..255
		rnd := verifnd.Bool("randomize")
		groups = append(groups, &pb.PhantomSubnets{Weight: &w, Subnets: []string{strs[g]}, RandomizeDstPort: &rnd})
		tot += uint64(w)
	}
	verifnd.Finding("C14-F2", tot == 0)
	seed := verifnd.Bytes("seed", 16)
	verifnd.LoopBound("crypto/rand.Int", 2)
	nets, err := getSubnetsHkdf(&SubnetConfig{WeightedSubnets: groups}, seed, true)
	if err != nil {
		// verif:optional-reach C14.weighted.error (reached only once a zero total weight is an error)
		verifnd.Reach("C14.weighted.error")
		return
	}
	verifnd.Assert(len(nets) == 1, "C14.weighted.one-group")
	if len(nets) == 1 {
		ok := false
		for g := 0; g < ng; g++ {
			ok = verifnd.Or(ok, verifnd.And(nets[0].String() == strs[g], groups[g].GetWeight() > 0,
				nets[0].SupportRandomPort() == groups[g].GetRandomizeDstPort()))
		}
		verifnd.Assert(ok, "C14.weighted.group-has-weight-and-flag")
	}
	// purity
	nets2, err2 := getSubnetsHkdf(&SubnetConfig{WeightedSubnets: groups}, seed, true)
	verifnd.Assert(err2 == nil && len(nets2) == len(nets) && (len(nets) == 0 || nets2[0].String() == nets[0].String()), "C14.weighted.repeat")
	verifnd.Reach("C14.weighted.selected")
}

// VerifC14Select: Select end to end on a one-group configuration of up to two
// networks of either family: family filter, generation lookup, repetition.
// verif:shards=4
func VerifC14Select() {
	k := verifnd.Choose("case", 4)
	v6 := k%2 == 1
	n := 1 + k/2
	if v6 && n == 2 && !verifnd.Thorough() {
		return // bound (quick): two-network configurations are explored for IPv4 requests only
	}
	libver := uint(verifnd.Range("libver", 2, 1<<20)) // every version >= 2 takes the HKDF algorithm
	w := uint32(verifnd.U8("weight"))                 // incl. zero
	rnd := verifnd.Bool("randomize")
	var specs []verifNetSpec
	var strs []string
	for i := 0; i < n; i++ {
		// prefix lengths are VerifC14AddrHkdf's subject; here two per family
		sp := verifOneSpec("net", verifnd.Choose("isv6", 2) == 1, 0, []int{24, 32}, []int{96, 128})
		specs = append(specs, sp)
		strs = append(strs, verifnd.CIDR(sp.ip, sp.ones))
	}
	groups := []*pb.PhantomSubnets{{Weight: &w, Subnets: strs, RandomizeDstPort: &rnd}}
	sel := &PhantomIPSelector{Networks: map[uint]*SubnetConfig{1: {WeightedSubnets: groups}}}
	seed := verifnd.Bytes("seed", 16)
	verifFindings(specs, groups, v6)
	for _, sp := range specs {
		verifnd.Prefer(sp.ip[0] == 0)
	}
	verifnd.LoopBound("crypto/rand.Int", 2)
	ip, err := sel.Select(seed, 1, libver, v6)
	verifCheckResult(ip, err, v6, specs, groups, "select")
	have := false
	for _, sp := range specs {
		have = have || sp.v6 == v6
	}
	// (the property allows "fails with an error" anywhere; the harness pins down when: no
	// network of the family, or nothing to weigh)
	verifnd.Assert((err == nil) == (have && w > 0), "C14.select.succeeds-iff-family-configured-and-weighted")
	ip2, err2 := sel.Select(seed, 1, libver, v6)
	verifnd.Assert((err == nil) == (err2 == nil), "C14.select.repeat.err")
	if err == nil && err2 == nil && ip != nil && ip2 != nil && ip.IP() != nil && ip2.IP() != nil {
		verifnd.Assert(verifnd.BytesEq(*ip.IP(), *ip2.IP()) && ip.SupportRandomPort() == ip2.SupportRandomPort(), "C14.select.repeat.same")
	}
	_, err3 := sel.Select(seed, 7, libver, v6)
	verifnd.Assert(err3 != nil, "C14.select.unknown-generation")
}

// VerifC14History: "the result depends on those inputs alone".  A selector with
// two generations whose single groups list the SAME two networks (arbitrary,
// possibly equal) but carry independent weights and port-randomisation flags,
// and a second group in generation 2 that repeats the first network under the
// opposite flag order.  A selection from one generation, then from the other,
// then from the first again: every result must be what that generation's
// configuration alone dictates (address inside the chosen group's network, that
// group's flag), the third must equal the first, and the configuration must be
// unchanged by the selections.  (Quick tier: two selections; the repeat of the
// first is thorough-tier.)
// verif:shards=2
func VerifC14History() {
	first := uint(1 + verifnd.Choose("first-generation", 2))
	libver := uint(verifnd.Range("libver", 2, 1<<20))
	sa := verifOneSpec("netA", false, 0, []int{24}, []int{96})
	sb := verifOneSpec("netB", false, 0, []int{24, 32}, []int{96})
	// bound: networks with a zero first byte are finding C14-F1's territory (other harnesses)
	verifnd.Cut("history-nets-first-byte-nonzero", verifnd.And(sa.ip[0] != 0, sb.ip[0] != 0))
	strA, strB := verifnd.CIDR(sa.ip, sa.ones), verifnd.CIDR(sb.ip, sb.ones)
	mk := func(tag string, ngroups int) ([]*pb.PhantomSubnets, []verifNetSpec) {
		var gs []*pb.PhantomSubnets
		var specs []verifNetSpec
		for g := 0; g < ngroups; g++ {
			w := 1 + uint32(verifnd.U8(tag+".weight")&3) // bound: weights 1..4 (arbitrary weights: VerifC14WeightedHkdf)
			rnd := verifnd.Bool(tag + ".randomize")
			strs := []string{strA, strB}
			a, b := sa, sb
			a.group, b.group = g, g
			if g == 1 {
				strs = []string{strA}
				specs = append(specs, a)
			} else {
				specs = append(specs, a, b)
			}
			gs = append(gs, &pb.PhantomSubnets{Weight: &w, Subnets: strs, RandomizeDstPort: &rnd})
		}
		return gs, specs
	}
	g1, specs1 := mk("gen1", 1)
	g2, specs2 := mk("gen2", 2)
	sel := &PhantomIPSelector{Networks: map[uint]*SubnetConfig{1: {WeightedSubnets: g1}, 2: {WeightedSubnets: g2}}}
	rounds := 1 // bound (quick): draws accepted at the first round (rejection rounds: the other harnesses)
	if verifnd.Thorough() {
		rounds = 2
	}
	verifnd.LoopBound("crypto/rand.Int", rounds)
	gens := map[uint][]*pb.PhantomSubnets{1: g1, 2: g2}
	specs := map[uint][]verifNetSpec{1: specs1, 2: specs2}
	snapshot := func() (out []interface{}) {
		for _, gen := range []uint{1, 2} {
			ws := sel.Networks[gen].WeightedSubnets
			out = append(out, len(ws))
			for _, g := range ws {
				out = append(out, g, g.GetWeight(), g.GetRandomizeDstPort(), len(g.Subnets))
			}
		}
		return
	}
	before := snapshot()
	seed1, seed2 := verifnd.Bytes("seed1", 16), verifnd.Bytes("seed2", 16)
	ip1, err1 := sel.Select(seed1, first, libver, false)
	verifCheckResult(ip1, err1, false, specs[first], gens[first], "history.first")
	ip2, err2 := sel.Select(seed2, 3-first, libver, false)
	verifCheckResult(ip2, err2, false, specs[3-first], gens[3-first], "history.second")
	if verifnd.Thorough() {
		ip3, err3 := sel.Select(seed1, first, libver, false)
		verifnd.Assert((err1 == nil) == (err3 == nil), "C14.history.repeat.err")
		if err1 == nil && err3 == nil && ip1 != nil && ip3 != nil && ip1.IP() != nil && ip3.IP() != nil {
			verifnd.Assert(verifnd.BytesEq(*ip1.IP(), *ip3.IP()) && ip1.SupportRandomPort() == ip3.SupportRandomPort(), "C14.history.repeat.same")
		}
	}
	after := snapshot()
	same := len(before) == len(after)
	for i := 0; same && i < len(before); i++ {
		same = before[i] == after[i]
	}
	verifnd.Assert(same, "C14.history.configuration-unchanged")
}

// VerifC14LegacyConcurrent: the clause "running many selections concurrently
// never changes any result" for the algorithm generations that serve library
// versions 0 and 1.  Two goroutines run the legacy address step (and, second
// scenario, the legacy weighted group choice) for two arbitrary seeds at the
// same time, under every interleaving at the operations on the package-level
// random generator; each result must equal what the same call returns alone,
// and a repeated call must repeat its result.  math/rand is modelled as a
// deterministic function of (seed, draws since seeding), the global generator
// as shared state.  Bound: seeds whose varint encoding is one byte.
// Native replay cannot force a schedule: it repeats the concurrent part until
// the interleaving shows (or 20000 rounds), then the engine re-executes the
// recorded schedule.
// verif:replay=native-then-model
// verif:shards=2
func VerifC14LegacyConcurrent() {
	rounds := 1
	if !verifnd.Symbolic() {
		rounds = 20000
	}
	scenario := verifnd.Choose("scenario", 2) // sharded: address step, weighted group choice
	seedA, seedB := verifnd.Bytes("seedA", 16), verifnd.Bytes("seedB", 16)
	verifnd.Cut("legacy-seed-varint-is-one-byte", verifnd.And(seedA[0] < 0x80, seedB[0] < 0x80))
	var wg sync.WaitGroup
	if scenario == 0 {
		_, netw, _ := net.ParseCIDR("192.0.2.0/24")
		wantA, errA := SelectAddrFromSubnet(seedA, netw)
		wantB, errB := SelectAddrFromSubnet(seedB, netw)
		if errA != nil || errB != nil {
			return
		}
		var gotA, gotB net.IP
		for r := 0; r < rounds; r++ {
			wg.Add(2)
			go func() { defer wg.Done(); gotA, _ = SelectAddrFromSubnet(seedA, netw) }()
			go func() { defer wg.Done(); gotB, _ = SelectAddrFromSubnet(seedB, netw) }()
			wg.Wait()
			if rounds > 1 && !(bytes.Equal(gotA, wantA) && bytes.Equal(gotB, wantB)) {
				break
			}
		}
		verifnd.Assert(verifnd.BytesEq(gotA, wantA) && verifnd.BytesEq(gotB, wantB), "C14.legacy.concurrent-selections-do-not-change-results")
		again, _ := SelectAddrFromSubnet(seedA, netw)
		verifnd.Assert(verifnd.BytesEq(again, wantA), "C14.legacy.repeat")
		verifnd.Reach("C14.legacy.addr.done")
		return
	}
	w1, w2 := uint32(1), uint32(3)
	sc := &SubnetConfig{WeightedSubnets: []*pb.PhantomSubnets{
		{Weight: &w1, Subnets: []string{"192.0.2.0/24"}},
		{Weight: &w2, Subnets: []string{"198.51.100.0/24"}},
	}}
	first := func(nets []*phantomNet, err error) string {
		if err != nil || len(nets) == 0 {
			return ""
		}
		return nets[0].String()
	}
	wantA := first(sc.getSubnetsVarint(seedA, true))
	wantB := first(sc.getSubnetsVarint(seedB, true))
	var gotA, gotB string
	for r := 0; r < rounds; r++ {
		wg.Add(2)
		go func() { defer wg.Done(); gotA = first(sc.getSubnetsVarint(seedA, true)) }()
		go func() { defer wg.Done(); gotB = first(sc.getSubnetsVarint(seedB, true)) }()
		wg.Wait()
		if rounds > 1 && !(gotA == wantA && gotB == wantB) {
			break
		}
	}
	verifnd.Assert(gotA == wantA && gotB == wantB, "C14.legacy.concurrent-group-choices-do-not-change-results")
	verifnd.Assert(first(sc.getSubnetsVarint(seedA, true)) == wantA, "C14.legacy.group-choice-repeat")
	verifnd.Reach("C14.legacy.group.done")
}

// VerifC14LegacySelect: Select end to end for library versions 0 and 1 (the
// legacy algorithm generations) on a one-group configuration of one or two
// networks of either family with arbitrary network bits: the result is an error
// or a well-formed address of the requested family inside a configured network
// of that family with the group's flag, and repeating the selection repeats the
// result.  The 128-bit remainder of the seed by the (constant) address total is
// abstracted to an uninterpreted function with its range facts (sound for these
// obligations: where the remainder lands decides only WHICH network is used).
// Bound: seeds whose varint encoding is one byte.
// verif:shards=4
func VerifC14LegacySelect() {
	k := verifnd.Choose("case", 4) // sharded: library version x family
	libver, v6 := uint(k%2), k/2 == 1
	verifnd.AbstractBigMod()
	seed := verifnd.Bytes("seed", 16)
	verifnd.Cut("legacy-seed-varint-is-one-byte", seed[0] < 0x80)
	w := uint32(1)
	rnd := verifnd.Bool("randomize")
	n := 1 + verifnd.Choose("nets", 2)
	var specs []verifNetSpec
	var strs []string
	for i := 0; i < n; i++ {
		sp := verifOneSpec("net", verifnd.Choose("isv6", 2) == 1, 0, []int{24, 32}, []int{96, 128})
		specs = append(specs, sp)
		strs = append(strs, verifnd.CIDR(sp.ip, sp.ones))
	}
	groups := []*pb.PhantomSubnets{{Weight: &w, Subnets: strs, RandomizeDstPort: &rnd}}
	sel := &PhantomIPSelector{Networks: map[uint]*SubnetConfig{1: {WeightedSubnets: groups}}}
	verifFindings(specs, groups, v6)
	ip, err := sel.Select(seed, 1, libver, v6)
	verifCheckResult(ip, err, v6, specs, groups, "legacy-select")
	// a result that the caller keeps is not changed by a later selection for another client
	var kept []byte
	if err == nil && ip != nil && ip.IP() != nil {
		kept = append(kept, (*ip.IP())...)
		other := verifnd.Bytes("other-seed", 16)
		verifnd.Cut("legacy-seed-varint-is-one-byte", other[0] < 0x80)
		_, _ = sel.Select(other, 1, libver, v6)
		verifnd.Assert(verifnd.BytesEq(*ip.IP(), kept), "C14.legacy-select.kept-result-not-changed-by-a-later-selection")
	}
	ip2, err2 := sel.Select(seed, 1, libver, v6)
	verifnd.Assert((err == nil) == (err2 == nil), "C14.legacy-select.repeat.err")
	if err == nil && err2 == nil && ip != nil && ip2 != nil && ip.IP() != nil && ip2.IP() != nil {
		verifnd.Assert(verifnd.BytesEq(*ip.IP(), *ip2.IP()) && ip.SupportRandomPort() == ip2.SupportRandomPort(), "C14.legacy-select.repeat.same")
	}
	verifnd.Reach("C14.legacy-select.done")
}

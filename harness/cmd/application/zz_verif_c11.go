package main

import (
	"net"

	"github.com/refraction-networking/conjure/internal/verifnd"
	cj "github.com/refraction-networking/conjure/pkg/station/lib"
	"github.com/refraction-networking/conjure/pkg/transports/connecting/dtls"
	"github.com/refraction-networking/conjure/pkg/transports/wrapping/min"
	"github.com/refraction-networking/conjure/pkg/transports/wrapping/obfs4"
	"github.com/refraction-networking/conjure/pkg/transports/wrapping/prefix"
	pb "github.com/refraction-networking/conjure/proto"
	"google.golang.org/protobuf/proto"
	"google.golang.org/protobuf/types/known/anypb"
)

// the DTLS transport's registration-time methods without its Connect (which
// needs a tun device and a UDP listener): value receiver methods only
type verifDTLS struct{ dtls.Transport }

// verifHavocDims: values per dimension of a forwarded registration message
// (value 0 = the base: a well-formed dual-stack min registration).
var verifHavocDims = []int{6, 6, 6, 6, 3, 5, 4, 8, 6, 2, 4, 4, 2}

func verifAnyParams(kind int, tag string) *anypb.Any {
	var a *anypb.Any
	switch kind {
	case 1:
		rnd := verifnd.Bool(tag + ".randomize")
		a, _ = anypb.New(&pb.GenericTransportParams{RandomizeDstPort: &rnd})
	case 2:
		id := int32(verifnd.U32(tag + ".prefix-id")) // any int32, incl. negative and unknown ids
		fl := int32(verifnd.U32(tag + ".flush"))
		rnd := verifnd.Bool(tag + ".randomize")
		a, _ = anypb.New(&pb.PrefixTransportParams{PrefixId: &id, CustomFlushPolicy: &fl, RandomizeDstPort: &rnd})
	case 3:
		a, _ = anypb.New(&pb.PrefixTransportParams{}) // every field absent
	case 4:
		port := verifnd.U32(tag + ".port")
		rnd := verifnd.Bool(tag + ".randomize")
		a, _ = anypb.New(&pb.DTLSTransportParams{SrcAddr4: &pb.Addr{IP: verifnd.Bytes(tag+".ip", 3), Port: &port}, RandomizeDstPort: &rnd})
	case 5:
		a = &anypb.Any{TypeUrl: "type.googleapis.com/tapdance.Nope"} // foreign type url, empty value
	}
	return a
}

func verifHavocMsg(vals []int) *pb.C2SWrapper {
	w := &pb.C2SWrapper{}
	w.SharedSecret = verifnd.Bytes("secret", []int{32, 0, 1, 7, 8, 33}[vals[0]])
	tt := []pb.TransportType{pb.TransportType_Min, pb.TransportType_Prefix, pb.TransportType_Obfs4, pb.TransportType_DTLS, pb.TransportType_Null, pb.TransportType(77)}[vals[1]]
	c2s := &pb.ClientToStation{Transport: &tt}
	c2s.TransportParams = verifAnyParams(vals[2], "params")
	if vals[3] != 5 {
		c2s.ClientLibVersion = proto.Uint32([]uint32{4, 0, 2, 3, 1 << 31}[vals[3]])
	}
	switch vals[4] {
	case 0:
		c2s.DecoyListGeneration = proto.Uint32(1)
	case 1:
		c2s.DecoyListGeneration = proto.Uint32(7)
	}
	switch vals[5] {
	case 0:
		w.RegistrationAddress = net.ParseIP("203.0.113.5").To4()
	case 2:
		w.RegistrationAddress = []byte{}
	case 3:
		w.RegistrationAddress = verifnd.Bytes("registrant5", 5)
	case 4:
		w.RegistrationAddress = verifnd.Bytes("registrant16", 16)
	}
	switch vals[6] {
	case 1:
		w.DecoyAddress = verifnd.Bytes("decoy4", 4)
	case 2:
		w.DecoyAddress = verifnd.Bytes("decoy16", 16)
	case 3:
		w.DecoyAddress = verifnd.Bytes("decoy3", 3)
	}
	switch vals[7] {
	case 1:
		w.RegistrationResponse = &pb.RegistrationResponse{DstPort: proto.Uint32(verifnd.U32("rr.port"))}
	case 2:
		w.RegistrationResponse = &pb.RegistrationResponse{Ipv4Addr: proto.Uint32(verifnd.U32("rr.v4"))}
	case 3:
		w.RegistrationResponse = &pb.RegistrationResponse{Ipv6Addr: verifnd.Bytes("rr.v6", 16)}
	case 4:
		w.RegistrationResponse = &pb.RegistrationResponse{Ipv6Addr: verifnd.Bytes("rr.v6short", 3)}
	case 5:
		w.RegistrationResponse = &pb.RegistrationResponse{TransportParams: verifAnyParams(1, "rr.params")}
	case 6:
		w.RegistrationResponse = &pb.RegistrationResponse{TransportParams: verifAnyParams(2, "rr.params")}
	case 7:
		w.RegistrationResponse = &pb.RegistrationResponse{TransportParams: verifAnyParams(5, "rr.params"), Ipv6Addr: []byte{}}
	}
	switch vals[8] {
	case 0:
		c2s.CovertAddress = proto.String("192.0.2.99:443")
	case 2:
		c2s.CovertAddress = proto.String("")
	case 3:
		c2s.CovertAddress = proto.String("not an address")
	case 4:
		c2s.CovertAddress = proto.String(":")
	case 5:
		c2s.CovertAddress = proto.String("[::1]:99999")
	}
	if vals[9] == 1 {
		c2s.Flags = &pb.RegistrationFlags{Prescanned: proto.Bool(verifnd.Bool("prescanned")), ProxyHeader: proto.Bool(verifnd.Bool("proxy-header")), Use_TIL: proto.Bool(verifnd.Bool("til"))}
	}
	switch vals[10] {
	case 0:
		w.RegistrationSource = pb.RegistrationSource_Detector.Enum()
	case 2:
		w.RegistrationSource = pb.RegistrationSource_API.Enum()
	case 3:
		s := pb.RegistrationSource(9)
		w.RegistrationSource = &s
	}
	switch vals[11] {
	case 0:
		c2s.V4Support, c2s.V6Support = proto.Bool(true), proto.Bool(true)
	case 1:
		c2s.V4Support = proto.Bool(true)
	case 2:
		c2s.V6Support = proto.Bool(true)
	}
	if vals[12] == 0 {
		w.RegistrationPayload = c2s
	}
	return w
}

// VerifC11IngestHavoc: a forwarded registration message with arbitrary field
// values - secrets of every interesting length, registrant/decoy addresses of
// wrong lengths, absent sub-messages, unknown transports, parameters of
// (mis)matching types with arbitrary numeric fields, a registration response
// carrying overrides (port > 65535, short IPv6 override, foreign params),
// malformed coverts, out-of-range enums - goes through the ingest parser, the
// ingest worker's steps, and every accessor the station later applies to the
// registration.  Obligation: no panic, no stall, bounded loops (implicit in
// every path); whatever is admitted is retrievable without panic.
// verif:shards=46
func VerifC11IngestHavoc() {
	verifnd.Sequential()
	vals := make([]int, len(verifHavocDims))
	// bound: every combination of deviations from the base message in at most two dimensions (thorough:
	// three, for the pairs among transport, parameters and library version); each unordered combination once
	nd := len(verifHavocDims)
	var pairs [][2]int
	for i := 0; i <= nd; i++ {
		for j := i + 1; j <= nd; j++ {
			pairs = append(pairs, [2]int{i, j})
		}
	}
	pairs = append(pairs, [2]int{nd, nd})
	pr := pairs[verifnd.Choose("deviating-dimensions", len(pairs))] // sharded
	dims := []int{pr[0], pr[1]}
	if verifnd.Thorough() && pr[0] >= 1 && pr[1] < 4 {
		// thorough: a third deviating dimension for the pairs among transport, parameters and library version
		// (with the secret length as well, one shard - 46 000 paths - and with every triple most
		// shards did not finish within the 40-minute budget)
		nthird := nd - pr[1]
		if nthird > 5 {
			nthird = 5 // (the next five dimensions: with all of them the largest shard took 33 of its 40 minutes)
		}
		dims = append(dims, pr[1]+1+verifnd.Choose("third-dimension", nthird))
	}
	for _, i := range dims {
		if i < nd {
			vals[i] = 1 + verifnd.Choose("value", verifHavocDims[i]-1)
		}
	}
	ndev := 0
	for _, v := range vals {
		if v != 0 {
			ndev++
		}
	}
	if !verifnd.Thorough() && vals[3] == 1 && ndev > 1 {
		return // bound (quick): the legacy library version 0 (many paths in its selection loop) deviates alone
	}
	verifnd.LoopBound("crypto/rand.Int", 2)
	verifnd.AbstractBigMod() // the legacy (library version 0/1) selection reduces a 128-bit seed modulo a constant
	rm := cj.VerifNewIngestManager()
	pt, err := prefix.Default([][32]byte{{}})
	if err != nil {
		panic(err)
	}
	_ = rm.AddTransport(pb.TransportType_Min, min.Transport{})
	_ = rm.AddTransport(pb.TransportType_Prefix, pt)
	_ = rm.AddTransport(pb.TransportType_Obfs4, obfs4.Transport{})
	_ = rm.AddTransport(pb.TransportType_DTLS, verifDTLS{})
	msg := verifHavocMsg(vals)
	regs, perr := rm.VerifParse(msg)
	if perr != nil {
		verifnd.Reach("C11.ingest.rejected")
	}
	for _, r := range regs {
		if r == nil {
			continue
		}
		rm.VerifIngest(r)
		// what the station applies to a tracked registration later on
		_ = r.IDString()
		_ = r.String()
		_ = r.GenerateC2SWrapper()
		_ = r.GetRegistrationAddress()
		_ = r.GetDstPort()
		_ = r.PreScanned()
		if tp := r.TransportPtr; tp != nil && *tp != nil {
			_ = (*tp).GetIdentifier(r)
			_ = (*tp).ParamStrings(r.TransportParams())
		}
		for id, found := range rm.GetRegistrations(r.PhantomIp) {
			_, _ = id, found.TransportType()
		}
		verifnd.Reach("C11.ingest.built")
	}
	verifnd.Settle()
	verifnd.Reach("C11.ingest.done")
}

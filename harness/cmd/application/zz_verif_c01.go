package main

import (
	"context"
	"crypto/sha256"
	"io"
	"math/big"
	"net"

	"github.com/refraction-networking/conjure/internal/verifnd"
	"github.com/refraction-networking/conjure/pkg/phantoms"
	cj "github.com/refraction-networking/conjure/pkg/station/lib"
	"github.com/refraction-networking/conjure/pkg/transports/wrapping/min"
	"github.com/refraction-networking/conjure/pkg/transports/wrapping/obfs4"
	"github.com/refraction-networking/conjure/pkg/transports/wrapping/prefix"
	pb "github.com/refraction-networking/conjure/proto"
	"golang.org/x/crypto/curve25519"
	"golang.org/x/crypto/hkdf"
	"google.golang.org/protobuf/types/known/anypb"
)

// ---- the published derivation, written down independently of the code ----
// (every constant spelled out; the hash model is keyed by the salt/info strings,
// so a change that moves client and station together no longer equals this)

const (
	refSalt        = "conjureconjureconjureconjure"
	refSubnetInfo  = "phantom-select-subnet"
	refAddrInfo    = "phantom-addr-id"
	refPortInfo    = "phantom-select-dst-port"
	refMinLabel    = "MinTrasportHMACString"
	refPrefixLabel = "PrefixTransportHMACString"
)

// refSeed: 16 bytes of HKDF-SHA256(secret, salt, no info); clients before
// library version 4 first drew and discarded 16+12+16+12+48 = 104 bytes.
func refSeed(secret []byte, libver uint32) []byte {
	off := 0
	if libver < 4 {
		off = 104
	}
	return verifnd.HKDF(secret, []byte(refSalt), nil, off, 16)
}

// refRandInt: crypto/rand.Int's published algorithm on an HKDF stream (at most
// `rounds` rejection rounds: the same bound the code is explored under).
func refRandInt(seed []byte, info string, max *big.Int, rounds int) (*big.Int, bool) {
	n := new(big.Int).Sub(max, big.NewInt(1))
	bitLen := n.BitLen()
	if bitLen == 0 {
		return new(big.Int), true
	}
	k := (bitLen + 7) / 8
	b := uint(bitLen % 8)
	if b == 0 {
		b = 8
	}
	for r := 0; r < rounds; r++ {
		bytes := verifnd.HKDF(seed, nil, []byte(info), r*k, k)
		bytes[0] &= uint8(int(1<<b) - 1)
		v := new(big.Int).SetBytes(bytes)
		if v.Cmp(max) < 0 {
			return v, true
		}
	}
	return nil, false
}

type refGroup struct {
	weight uint32
	nets   []*net.IPNet
	rnd    bool
}

// refSelect: weighted group choice (groups in ascending weight order, stable;
// draw in [0,total); walk), family filter, address id in [0,#addresses) mapped
// to (net in configured order, offset), address = network + offset.
func refSelect(seed []byte, groups []refGroup, v6 bool, rounds int) (net.IP, bool, bool) {
	order := make([]int, len(groups))
	for i := range order {
		order[i] = i
	}
	for i := 1; i < len(order); i++ { // stable insertion sort, ascending weight
		for j := i; j > 0 && groups[order[j]].weight < groups[order[j-1]].weight; j-- {
			order[j], order[j-1] = order[j-1], order[j]
		}
	}
	tot := int64(0)
	for _, g := range groups {
		tot += int64(g.weight)
	}
	draw, ok := refRandInt(seed, refSubnetInfo, big.NewInt(tot), rounds)
	if !ok {
		return nil, false, false
	}
	rnd := draw.Int64()
	chosen := -1
	for _, gi := range order {
		rnd -= int64(groups[gi].weight)
		if rnd < 0 {
			chosen = gi
			break
		}
	}
	if chosen < 0 {
		return nil, false, false
	}
	g := groups[chosen]
	var nets []*net.IPNet
	for _, n := range g.nets {
		if (n.IP.To4() == nil) == v6 {
			nets = append(nets, n)
		}
	}
	total := new(big.Int)
	for _, n := range nets {
		ones, bits := n.Mask.Size()
		total.Add(total, new(big.Int).Lsh(big.NewInt(1), uint(bits-ones)))
	}
	if total.Sign() == 0 {
		return nil, false, true // no address of that family: selection must fail
	}
	id, ok := refRandInt(seed, refAddrInfo, total, rounds)
	if !ok {
		return nil, false, false
	}
	base := new(big.Int)
	for _, n := range nets {
		ones, bits := n.Mask.Size()
		size := new(big.Int).Lsh(big.NewInt(1), uint(bits-ones))
		next := new(big.Int).Add(base, size)
		if id.Cmp(next) < 0 {
			off := new(big.Int).Sub(id, base)
			ipb := n.IP.To4()
			if v6 {
				ipb = n.IP.To16()
			}
			addr := new(big.Int).Add(new(big.Int).SetBytes(ipb), off)
			out := make([]byte, len(ipb))
			addr.FillBytes(out)
			return net.IP(out), g.rnd, true
		}
		base = next
	}
	return nil, false, false
}

func refPort(seed []byte, lo, hi int64, rounds int) (uint16, bool) {
	v, ok := refRandInt(seed, refPortInfo, big.NewInt(hi-lo), rounds)
	if !ok {
		return 0, false
	}
	return uint16(v.Int64() + lo), true
}

func verifParse(s string) *net.IPNet {
	_, n, err := net.ParseCIDR(s)
	if err != nil {
		panic(err)
	}
	return n
}

// VerifC01Derivation: for every shared secret, library version 2-4, family,
// transport (min; prefix with two ids; port randomisation on/off) and a subnet
// configuration of two (thorough tier: three) weighted groups (arbitrary 8-bit weights incl. ties,
// arbitrary port-randomisation flags) the station's registration, the client
// library's own derivation, and the published algorithm written down above all
// give the same seed, phantom address, destination port and connection tag.
// verif:shards=12
func VerifC01Derivation() {
	verifnd.Sequential()
	k := verifnd.Choose("case", 12) // sharded: library version x family x transport kind
	libver := uint32(2 + k%3)
	v6 := (k/3)%2 == 1
	isPrefix := k/6 == 1
	rounds := 2
	if verifnd.Thorough() {
		rounds = 3 // thorough: one more rejection round per draw
	}
	verifnd.LoopBound("crypto/rand.Int", rounds)
	secret := verifnd.Bytes("secret", 32)
	// ---- subnet configuration (ClientConf generation 1)
	specs := [][]string{{"192.0.2.0/24"}, {"198.51.100.0/28", "203.0.113.0/24", "2001:db8:2::/96"}}
	if verifnd.Thorough() {
		// thorough: a third group (three-way weight ties and orders, a /32 and a /128)
		specs = append(specs, []string{"192.0.2.255/32", "2001:db8:3::1/128", "2001:db8:4::/64"})
	}
	var pbGroups []*pb.PhantomSubnets
	var groups []refGroup
	tot := uint64(0)
	for _, nets := range specs {
		w := uint32(verifnd.U8("weight")) // bound: weights 0..255
		rnd := verifnd.Bool("randomize-dst-port")
		pbGroups = append(pbGroups, &pb.PhantomSubnets{Weight: &w, Subnets: nets, RandomizeDstPort: &rnd})
		g := refGroup{weight: w, rnd: rnd}
		for _, s := range nets {
			g.nets = append(g.nets, verifParse(s))
		}
		groups = append(groups, g)
		tot += uint64(w)
	}
	verifnd.Assume(tot > 0) // (a zero total is C14's finding)
	list := &pb.PhantomSubnetsList{WeightedSubnets: pbGroups}
	// ---- station
	rm := cj.VerifNewManager()
	rm.PhantomSelector = &phantoms.PhantomIPSelector{Networks: map[uint]*phantoms.SubnetConfig{1: {WeightedSubnets: pbGroups}}}
	pt, err := prefix.Default([][32]byte{{}})
	if err != nil {
		panic(err)
	}
	_ = rm.AddTransport(pb.TransportType_Min, min.Transport{})
	_ = rm.AddTransport(pb.TransportType_Prefix, pt)
	tt := pb.TransportType_Min
	var params *anypb.Any
	randomize := verifnd.Bool("client-randomizes-port")
	pid := prefix.GetLong
	if isPrefix {
		tt = pb.TransportType_Prefix
		if verifnd.Bool("prefix-is-min") {
			pid = prefix.Min
		}
		id := int32(pid)
		params, _ = anypb.New(&pb.PrefixTransportParams{PrefixId: &id, RandomizeDstPort: &randomize})
	} else {
		params, _ = anypb.New(&pb.GenericTransportParams{RandomizeDstPort: &randomize})
	}
	src := pb.RegistrationSource_API
	yes, no := true, false
	v4s, v6s := &yes, &no
	if v6 {
		v4s, v6s = &no, &yes
	}
	gen := uint32(1)
	msg := &pb.C2SWrapper{SharedSecret: secret, RegistrationSource: &src, RegistrationAddress: net.ParseIP("203.0.113.77").To4(),
		RegistrationPayload: &pb.ClientToStation{V4Support: v4s, V6Support: v6s, Transport: &tt, TransportParams: params,
			DecoyListGeneration: &gen, ClientLibVersion: &libver}}
	reg, serr := rm.NewRegistrationC2SWrapper(msg, v6)
	// ---- reference + client library
	seed := refSeed(secret, libver)
	wantIP, wantRnd, defined := refSelect(seed, groups, v6, rounds)
	if !defined {
		return // beyond the rejection-round bound
	}
	filter := phantoms.V4Only
	if v6 {
		filter = phantoms.V6Only
	}
	cip, cerr := phantoms.SelectPhantom(seed, list, filter, true)
	if wantIP == nil {
		verifnd.Assert(serr != nil && cerr != nil, "C01.no-address-of-that-family-fails-on-both-sides")
		verifnd.Reach("C01.selection-fails")
		return
	}
	if isPrefix && libver < 3 {
		verifnd.Assert(serr != nil, "C01.prefix-needs-library-version-3")
		return
	}
	verifnd.Assert(serr == nil && reg != nil && cerr == nil && cip != nil, "C01.both-sides-select")
	if serr != nil || reg == nil || cerr != nil || cip == nil {
		return
	}
	verifnd.Assert(verifnd.BytesEq(reg.Keys.ConjureSeed, seed), "C01.station-seed-is-the-published-derivation")
	verifnd.Assert(verifnd.BytesEq(*cip.IP(), wantIP) && cip.SupportRandomPort() == wantRnd, "C01.client-phantom-is-the-published-derivation")
	verifnd.Assert(verifnd.BytesEq(reg.PhantomIp, *cip.IP()), "C01.station-and-client-phantom-agree")
	// ---- destination port (client glue of the deployed client: the transport's port if the
	// chosen subnet group randomises ports, else 443; library versions < 3 always 443)
	wantPort := uint16(443)
	if isPrefix {
		wantPort = map[prefix.PrefixID]uint16{prefix.Min: 443, prefix.GetLong: 80}[pid]
	}
	if libver < 3 || !wantRnd {
		wantPort = 443
	} else if randomize {
		p, ok := refPort(seed, 1024, 65535, rounds)
		if !ok {
			return
		}
		wantPort = p
	}
	var clientPort uint16 = 443
	if libver >= 3 && cip.SupportRandomPort() {
		if isPrefix {
			ct := &prefix.ClientTransport{}
			p, _ := prefix.TryFromID(pid)
			ct.Prefix = p
			id := int32(pid)
			_ = ct.SetParams(&pb.PrefixTransportParams{PrefixId: &id, RandomizeDstPort: &randomize})
			_ = ct.Prepare(context.Background(), nil)
			clientPort, _ = ct.GetDstPort(seed)
		} else {
			ct := &min.ClientTransport{Parameters: &pb.GenericTransportParams{RandomizeDstPort: &randomize}}
			_ = ct.Prepare(context.Background(), nil)
			clientPort, _ = ct.GetDstPort(seed)
		}
	}
	verifnd.Assert(reg.PhantomPort == wantPort, "C01.station-port-is-the-published-derivation")
	verifnd.Assert(clientPort == wantPort, "C01.client-port-is-the-published-derivation")
	// ---- connection tags
	label := refMinLabel
	if isPrefix {
		label = refPrefixLabel
	}
	wantTag := verifnd.HMACSHA256(secret, []byte(label))
	var st cj.Transport = min.Transport{}
	if isPrefix {
		st = pt
	}
	verifnd.Assert(st.GetIdentifier(reg) == string(wantTag), "C01.station-tag-is-the-published-derivation")
	if !isPrefix {
		out := &cj.VerifScriptConn{Name: "out", DeadlineErr: -1}
		ct := &min.ClientTransport{}
		_ = ct.PrepareKeys([32]byte{}, secret, nil)
		_, _ = ct.WrapConn(out)
		verifnd.Assert(verifnd.BytesEq(out.Written, wantTag), "C01.client-tag-is-the-published-derivation")
	}
	verifnd.Reach("C01.agree")
}

// VerifC01Obfs4Keys: the obfs4 node keys.  A forwarded registration message
// (through the ingest parser, so one message may yield a v4 and a v6
// registration) is given to a station; each resulting registration's obfs4
// identifier (node public key || node id) must equal (i) what the client
// transport derives from the same secret and (ii) the published derivation:
// private key = 32 bytes of the HKDF stream following the seed, clamped; node
// id = the next 20 bytes; public key = X25519(private, base point).
// verif:shards=9
func VerifC01Obfs4Keys() {
	verifnd.Sequential()
	k := verifnd.Choose("case", 9) // sharded: library version x advertised families
	libver := uint32(2 + k%3)
	fam := k / 3 // 0: v4, 1: v6, 2: both
	secret := verifnd.Bytes("secret", 32)
	rm := cj.VerifNewManager()
	_ = rm.AddTransport(pb.TransportType_Obfs4, obfs4.Transport{})
	tt := pb.TransportType_Obfs4
	randomize := verifnd.Bool("client-randomizes-port")
	params, _ := anypb.New(&pb.GenericTransportParams{RandomizeDstPort: &randomize})
	src := pb.RegistrationSource_API
	v4s, v6s := fam != 1, fam != 0
	gen := uint32(1)
	msg := &pb.C2SWrapper{SharedSecret: secret, RegistrationSource: &src, RegistrationAddress: net.ParseIP("203.0.113.77").To4(),
		RegistrationPayload: &pb.ClientToStation{V4Support: &v4s, V6Support: &v6s, Transport: &tt, TransportParams: params,
			DecoyListGeneration: &gen, ClientLibVersion: &libver}}
	regs, err := rm.VerifParse(msg)
	want := 1
	if fam == 2 {
		want = 2
	}
	verifnd.Assert(err == nil && len(regs) == want, "C01.obfs4.message-yields-a-registration-per-family")
	if err != nil || len(regs) != want {
		return
	}
	// ---- published derivation
	off := 16
	if libver < 4 {
		off += 104
	}
	priv := verifnd.HKDF(secret, []byte(refSalt), nil, off, 32)
	priv[0] &= 248
	priv[31] &= 127
	priv[31] |= 64
	pub, _ := curve25519.X25519(priv, curve25519.Basepoint)
	node := verifnd.HKDF(secret, []byte(refSalt), nil, off+32, 20)
	wantID := string(pub) + string(node)
	// ---- client library (this repository's client transport on the client's HKDF stream)
	rd := hkdf.New(sha256.New, secret, []byte(refSalt), nil)
	skip := make([]byte, off)
	_, _ = io.ReadFull(rd, skip)
	ct := &obfs4.ClientTransport{}
	_ = ct.PrepareKeys([32]byte{}, secret, rd)
	verifnd.Assert(ct.VerifClientIdentifier() == wantID, "C01.obfs4.client-keys-are-the-published-derivation")
	// order of first use must not matter: look at the last registration first
	for i := len(regs) - 1; i >= 0; i-- {
		id := obfs4.Transport{}.GetIdentifier(regs[i])
		verifnd.Assert(id == wantID, "C01.obfs4.station-keys-are-the-published-derivation")
		verifnd.Assert(obfs4.Transport{}.GetIdentifier(regs[i]) == id, "C01.obfs4.identifier-is-stable")
	}
	verifnd.Reach("C01.obfs4.agree")
}

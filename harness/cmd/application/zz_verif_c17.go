package main

import (
	"net"
	"os"
	"strings"

	"github.com/refraction-networking/conjure/internal/verifnd"
	cj "github.com/refraction-networking/conjure/pkg/station/lib"
)

// VerifC17Handler: the phantom connection handler with client-address logging
// disabled and the default log level.  Every error shape the network stack
// returns (each anticipated errno, an unanticipated one, a deadline timeout, a
// kernel timeout, EOF, closed, an opaque error) at every call the handler makes
// on the client connection before a transport is identified - SetDeadline, the
// read of a connection to a phantom without registrations, the first and a
// later classification read, the discard after every transport said no - for
// IPv4 and IPv6 clients, with and without GeoIP data: no log line contains the
// client's address.
// verif:shards=10
func VerifC17Handler() {
	verifnd.Sequential()
	k := verifnd.Choose("case", 10) // sharded: call site x client family
	site, v6 := k%5, k/5 == 1
	kind := verifnd.Choose("kind", 12)
	client := "203.0.113.77"
	if v6 {
		client = "2001:db8:c11e::77"
	}
	cj.VerifSetClient(client)
	// known finding: errors the sanitiser does not recognise keep their "ip:port->ip:port"
	// text; an error from SetDeadline is printed without being sanitised at all
	wrapped := kind != 0 && kind != 4 && kind != 6
	verifnd.Finding("C17-F1", kind == 5 || site == 0 && wrapped)
	logClientIP = false
	verifnd.LoopBound("crypto/rand.Int", 2)
	nregs := 2
	if site == 1 {
		nregs = 0
	}
	rm, regs, _ := verifStation(nregs)
	if verifnd.Bool("geoip") {
		rm.GeoIP = verifGeo{}
	}
	phantom := net.ParseIP("192.0.2.200").To4()
	if len(regs) > 0 {
		phantom = regs[0].PhantomIp
	}
	e := cj.VerifErr(kind, "read")
	conn := &cj.VerifScriptConn{Name: "client", DeadlineErr: -1}
	zeros := func(n int) []byte { return make([]byte, n) }
	switch site {
	case 0: // SetDeadline fails, then the peer goes away
		conn.DeadlineErr, conn.DeadlineE = 0, cj.VerifErr(kind, "set")
		conn.Reads = []cj.VerifRead{{Err: cj.VerifErr(0, "read")}}
	case 1: // no registration on this phantom: the discard read fails
		conn.Reads = []cj.VerifRead{{N: 3}, {Err: e}}
	case 2: // first classification read fails
		conn.Reads = []cj.VerifRead{{Err: e}}
	case 3: // a later classification read fails (some bytes delivered together with the error)
		conn.Reads = []cj.VerifRead{{N: 10}, {N: verifnd.Choose("with-bytes", 2) * 5, Err: e}}
		conn.Data = [][]byte{zeros(10), zeros(5)}
	case 4: // every transport said "not mine" (nothing in 300 zero bytes), the discard read fails
		conn.Reads = []cj.VerifRead{{N: 300}, {Err: e}}
		conn.Data = [][]byte{zeros(300)}
	}
	cm := newConnManager(nil)
	leaked := false
	if verifnd.Symbolic() {
		cm.handleNewTCPConn(rm, conn, phantom)
		leaked = verifnd.LogLeaks(client)
	} else {
		// native replay: the handler logs to os.Stdout; capture it in a file
		f, err := os.CreateTemp("", "verif-c17-*.log")
		if err != nil {
			panic(err)
		}
		saved := os.Stdout
		os.Stdout = f
		cm.handleNewTCPConn(rm, conn, phantom)
		os.Stdout = saved
		f.Close()
		out, _ := os.ReadFile(f.Name())
		os.Remove(f.Name())
		leaked = strings.Contains(string(out), client)
	}
	verifnd.Assert(!leaked, "C17.handler.no-client-address-in-logs")
	verifnd.Assert(verifnd.Dialed() == "", "C17.handler.harness-reached-no-covert")
	verifnd.Reach("C17.handler.done")
}

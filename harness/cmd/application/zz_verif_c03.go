package main

import (
	"bytes"
	"errors"
	"net"
	"time"

	"github.com/refraction-networking/conjure/internal/verifnd"
	cj "github.com/refraction-networking/conjure/pkg/station/lib"
	"github.com/refraction-networking/conjure/pkg/transports"
	"github.com/refraction-networking/conjure/pkg/transports/wrapping/min"
	"github.com/refraction-networking/conjure/pkg/transports/wrapping/prefix"
	pb "github.com/refraction-networking/conjure/proto"
	"google.golang.org/protobuf/types/known/anypb"
)

// segment sizes: the transports' thresholds, a segment that exactly fills the handler's read buffer,
// and one that is larger than it (a burst: the rest stays queued on the socket)
var verifChunk = []int{1, 32, 64, 85, 4096, 5000}

// verifGeo: a GeoIP database that knows the client's country.
type verifGeo struct{}

func (verifGeo) ASN(ip net.IP) (uint, error)  { return 64500, nil }
func (verifGeo) CC(ip net.IP) (string, error) { return "ZZ", nil }

func verifStation(nregs int, v6 ...bool) (*cj.RegistrationManager, []*cj.DecoyRegistration, [32]byte) {
	rm := cj.VerifNewManager()
	want6 := len(v6) > 0 && v6[0]
	var priv [32]byte
	copy(priv[:], verifnd.Bytes("station-privkey", 32))
	pt, err := prefix.Default([][32]byte{priv})
	if err != nil {
		panic(err)
	}
	_ = rm.AddTransport(pb.TransportType_Min, &verifWatch{WrappingTransport: min.Transport{}})
	_ = rm.AddTransport(pb.TransportType_Prefix, &verifWatch{WrappingTransport: pt})
	var regs []*cj.DecoyRegistration
	for i := 0; i < nregs; i++ {
		tt := pb.TransportType_Min
		var params *anypb.Any
		if i%2 == 1 {
			tt = pb.TransportType_Prefix
			id := int32(prefix.GetLong)
			params, _ = anypb.New(&pb.PrefixTransportParams{PrefixId: &id})
		}
		secret := make([]byte, 32)
		for j := range secret {
			secret[j] = byte(0x40 + i)
		}
		if r := rm.VerifAdmit(secret, tt, params, "192.0.2.99:443", want6); r != nil {
			regs = append(regs, r)
		}
	}
	return rm, regs, priv
}

// verifWatch records what a wrapping transport answered.
type verifWatch struct {
	cj.WrappingTransport
}

var verifSecretHolder bool // a transport recognised a registered secret under the wrong transport / prefix

func (w *verifWatch) WrapConnection(data *bytes.Buffer, c net.Conn, phantom net.IP, rm transports.RegManager) (transports.Registration, net.Conn, error) {
	r, wc, err := w.WrappingTransport.WrapConnection(data, c, phantom, rm)
	if errors.Is(err, prefix.ErrIncorrectPrefix) || errors.Is(err, prefix.ErrIncorrectTransport) {
		verifSecretHolder = true
	}
	return r, wc, err
}

// VerifC03Unauthenticated: a connection to a phantom that never presents a
// valid tag - any contents, 0-2 segments of threshold sizes then silence or a
// peer-side end of stream, registry with no / one / two registrations on the
// probed phantom: the station never writes to it, does not return (so cannot
// close it) before the randomised deadline it set, that deadline lies 5-10 s
// after accept, and it keeps reading everything the peer sends.
// verif:shards=36
func VerifC03Unauthenticated() {
	verifnd.Sequential()
	kk := verifnd.Choose("case", 36) // sharded: registrations x segments x phantom family x GeoIP
	k := kk % 9
	v6, geo := (kk/9)%2 == 1, kk/18 == 1
	nregs, nchunks := k%3, k/3
	if (nregs > 0 && nchunks == 2 || nregs == 2 && (v6 || geo)) && !verifnd.Thorough() {
		return // bound (quick): two segments only against an empty registry; all nine cases in the thorough tier
	}
	logClientIP = false
	verifnd.LoopBound("crypto/rand.Int", 2)
	rm, regs, _ := verifStation(nregs, v6)
	if geo {
		rm.GeoIP = verifGeo{}
	}
	phantom := net.ParseIP("192.0.2.200").To4()
	if v6 {
		phantom = net.ParseIP("2001:db8::200")
	}
	if len(regs) > 0 {
		phantom = regs[0].PhantomIp
	}
	conn := &cj.VerifScriptConn{Name: "probe", DeadlineErr: -1}
	for i := 0; i < nchunks; i++ {
		sizes := verifChunk
		if i > 0 && (!verifnd.Thorough() || nregs > 0) {
			// bound: buffer-filling and larger segments as the first segment only (thorough: also as
			// the second one against an empty registry)
			sizes = verifChunk[:4]
		}
		if nregs == 2 && !verifnd.Thorough() {
			sizes = []int{1, 85, 5000} // bound (quick): three segment sizes against two registrations
		}
		n := sizes[verifnd.Choose("size", len(sizes))]
		conn.Reads = append(conn.Reads, cj.VerifRead{N: n})
		var fixed []byte
		if n > 128 {
			// bound: of a large segment the first 128 bytes are arbitrary, the rest is zero (no
			// enabled transport looks beyond its tag position, at most 85 bytes into the stream)
			fixed = append(verifnd.Bytes("probe.head", 128), make([]byte, n-128)...)
		}
		conn.Data = append(conn.Data, fixed)
	}
	peerEnds := verifnd.Choose("then", 3) // silence, EOF, reset
	switch peerEnds {
	case 1:
		conn.Reads = append(conn.Reads, cj.VerifRead{Err: cj.VerifErr(0, "read")})
	case 2:
		conn.Reads = append(conn.Reads, cj.VerifRead{Err: cj.VerifErr(1, "read")})
	}
	cm := newConnManager(nil)
	start := time.Now()
	cm.handleNewTCPConn(rm, conn, phantom)
	end := time.Now()
	if verifnd.Dialed() != "" || verifSecretHolder {
		// the bytes authenticated, or proved knowledge of a registered secret under the wrong
		// transport / prefix: not "a connection that never presents a valid tag"
		verifSecretHolder = false
		return
	}
	verifnd.Assert(conn.WriteCalls == 0, "C03.no-byte-written-to-the-peer")
	verifnd.Assert(conn.Deadlines >= 1 && !conn.Deadline.IsZero(), "C03.deadline-set-before-reading")
	d := conn.Deadline.Sub(start)
	verifnd.Assert(d >= 5*time.Second && d < 10*time.Second, "C03.deadline-5-to-10-seconds-after-accept")
	verifnd.Assert(peerEnds != 0 || !end.Before(conn.Deadline), "C03.no-return-before-the-deadline-unless-the-peer-ended")
	verifnd.Assert(peerEnds != 0 || end.Sub(start) >= 5*time.Second, "C03.no-return-within-five-seconds-unless-the-peer-ended")
	verifnd.Assert(conn.Rpos == len(conn.Reads), "C03.keeps-reading-what-the-peer-sends")
	if peerEnds == 0 {
		verifnd.Assert(conn.TimedOut, "C03.reads-until-the-deadline")
	}
	verifnd.Reach("C03.done")
}

package main

import (
	"bytes"
	"net"
	"time"

	"github.com/refraction-networking/conjure/internal/verifnd"
	cj "github.com/refraction-networking/conjure/pkg/station/lib"
	"github.com/refraction-networking/conjure/pkg/transports/wrapping/min"
	pb "github.com/refraction-networking/conjure/proto"
)

// VerifC02Lifecycle: "currently validated and unexpired".  A registration (any
// secret) goes through one of the life-cycle states reachable by register /
// validate / connect / time passing / sweep - tracked but not validated;
// validated; validated and idle past the 10-minute limit, swept; connected to
// once, still inside the 6-hour limit, swept; connected to, past 6 hours,
// swept; removed and registered again - while another client's fresh
// registration shares the phantom.  Then the genuine first flight (min
// transport) arrives on that phantom: it is matched iff the registration is
// validated and unexpired, and matched to exactly that registration; the other
// client's registration is unaffected.
// verif:shards=6
func VerifC02Lifecycle() {
	verifnd.Sequential()
	state := verifnd.Choose("state", 6) // sharded
	verifnd.LoopBound("crypto/rand.Int", 2)
	rm := cj.VerifNewManager()
	_ = rm.AddTransport(pb.TransportType_Min, min.Transport{})
	secret := verifnd.Bytes("secret", 32)
	other := make([]byte, 32)
	for i := range other {
		other[i] = 0x5a
	}
	reg := rm.VerifBuild(secret, pb.TransportType_Min, nil)
	if reg == nil {
		return
	}
	phantom := reg.PhantomIp
	// another client's registration on the same phantom (validated, fresh)
	o := rm.VerifBuild(other, pb.TransportType_Min, nil)
	if o == nil {
		return
	}
	o.PhantomIp = phantom
	_ = rm.TrackRegistration(o)
	rm.AddRegistration(o)

	_ = rm.TrackRegistration(reg)
	want := false
	switch state {
	case 0: // tracked, never validated
	case 1: // validated, fresh
		rm.AddRegistration(reg)
		want = true
	case 2: // validated, never used, idle for 11 minutes, swept
		rm.AddRegistration(reg)
		rm.VerifAge(reg, 11*time.Minute)
		rm.RemoveOldRegistrations()
	case 3: // validated, used once, 11 minutes old, swept: still alive (below 6 hours)
		rm.AddRegistration(reg)
		rm.MarkActive(reg)
		rm.VerifAge(reg, 11*time.Minute)
		rm.RemoveOldRegistrations()
		want = true
	case 4: // validated, 7 hours old, used just now (a connection must not restart the lifetime), swept
		rm.AddRegistration(reg)
		rm.VerifAge(reg, 7*time.Hour)
		rm.MarkActive(reg)
		rm.RemoveOldRegistrations()
	case 5: // expired and swept, then the same client registers again (fresh, validated)
		rm.AddRegistration(reg)
		rm.VerifAge(reg, 11*time.Minute)
		rm.RemoveOldRegistrations()
		reg = rm.VerifBuild(secret, pb.TransportType_Min, nil)
		if reg == nil {
			return
		}
		_ = rm.TrackRegistration(reg)
		rm.AddRegistration(reg)
		want = true
	}
	t := min.Transport{}
	flight := []byte(t.GetIdentifier(reg))
	got, _, err := t.WrapConnection(bytes.NewBuffer(flight), nil, phantom, rm)
	matched := err == nil && got != nil
	verifnd.Assert(matched == want, "C02.lifecycle.matched-iff-validated-and-unexpired")
	if matched {
		d, ok := got.(*cj.DecoyRegistration)
		verifnd.Assert(ok && bytes.Equal(d.Keys.SharedSecret, secret), "C02.lifecycle.matched-to-exactly-that-registration")
	}
	// the bystander is still served, and only by its own flight
	og, _, oerr := t.WrapConnection(bytes.NewBuffer([]byte(t.GetIdentifier(o))), nil, phantom, rm)
	verifnd.Assert(oerr == nil && og != nil, "C02.lifecycle.other-registration-unaffected")
	_ = net.IP{}
	verifnd.Reach("C02.lifecycle.done")
}

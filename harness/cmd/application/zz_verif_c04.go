package main

import (
	"net"
	"sync"

	"github.com/refraction-networking/conjure/internal/verifnd"
	cj "github.com/refraction-networking/conjure/pkg/station/lib"
	"github.com/refraction-networking/conjure/pkg/transports/wrapping/min"
	"github.com/refraction-networking/conjure/pkg/transports/wrapping/prefix"
	pb "github.com/refraction-networking/conjure/proto"
	"golang.org/x/crypto/curve25519"
	"google.golang.org/protobuf/types/known/anypb"
)

var verifPrefixIDs = []prefix.PrefixID{prefix.Min, prefix.GetLong, prefix.TLSAlertWarning, prefix.OpenSSH2}

// VerifC04Flights: a registered client opens its phantom connection with the
// real client transport (min, or prefix with one of four prefix ids); the first
// flight plus early data is cut into 1-3 TCP segments at every position that
// matters (around the prefix, the tag boundaries, the end); other registrations
// share the phantom.  The station's real handler must find exactly that
// registration, mark it used, deliver the early data to the covert exactly once
// and in order, and the covert's reply to the client.
// verif:replay=model
// verif:shards=10
func VerifC04Flights() {
	verifnd.Sequential()
	k := verifnd.Choose("case", 10) // sharded: transport/prefix x station key used by the client
	which, keyIdx := k%5, k/5       // 0 = min, 1-4 = prefix ids
	logClientIP = false
	verifnd.LoopBound("crypto/rand.Int", 2)
	rm := cj.VerifNewManager()
	// two station keys (key rotation): the client may use either public key
	var privs [2][32]byte
	copy(privs[0][:], verifnd.Bytes("station-privkey-0", 32))
	copy(privs[1][:], verifnd.Bytes("station-privkey-1", 32))
	pt, err := prefix.Default([][32]byte{privs[0], privs[1]})
	if err != nil {
		panic(err)
	}
	_ = rm.AddTransport(pb.TransportType_Min, min.Transport{})
	_ = rm.AddTransport(pb.TransportType_Prefix, pt)
	secret := verifnd.Bytes("secret", 32)
	verifnd.Assume(secret[0] != 0x55) // (the other registration on this phantom is somebody else's: a different secret)
	tt := pb.TransportType_Min
	var params *anypb.Any
	var pid prefix.PrefixID
	if which > 0 {
		tt = pb.TransportType_Prefix
		pid = verifPrefixIDs[which-1]
		id := int32(pid)
		params, _ = anypb.New(&pb.PrefixTransportParams{PrefixId: &id})
	}
	reg := rm.VerifAdmit(secret, tt, params, "192.0.2.99:443")
	if reg == nil {
		return
	}
	// another registration on the same phantom is somebody else's
	var otherReg *cj.DecoyRegistration
	if verifnd.Bool("other-registration-present") {
		other := make([]byte, 32)
		other[0] = 0x55
		// cryptographic assumption (the hash model has no collision freeness built in): the two
		// clients' identifiers differ
		oid := verifnd.HMACSHA256(other, []byte("MinTrasportHMACString"))
		verifnd.Assume(!verifnd.BytesEq(oid, verifnd.HMACSHA256(secret, []byte("MinTrasportHMACString"))))
		verifnd.Assume(!verifnd.BytesEq(oid, verifnd.HMACSHA256(secret, []byte("PrefixTransportHMACString"))))
		if o := rm.VerifAdmit(other, pb.TransportType_Min, nil, "192.0.2.98:443"); o != nil {
			o.PhantomIp = reg.PhantomIp
			_ = rm.TrackRegistration(o)
			rm.AddRegistration(o)
			otherReg = o
		}
	}
	// ---- the client's first flight, produced by the real client transport
	var pub [32]byte
	curve25519.ScalarBaseMult(&pub, &privs[keyIdx])
	out := &cj.VerifScriptConn{Name: "client-out", DeadlineErr: -1}
	if which == 0 {
		ct := &min.ClientTransport{}
		verifnd.Assert(ct.PrepareKeys(pub, secret, nil) == nil, "C04.client.prepare")
		_, err = ct.WrapConn(out)
	} else {
		ct := &prefix.ClientTransport{}
		p, perr := prefix.TryFromID(pid)
		verifnd.Assert(perr == nil, "C04.client.prefix")
		ct.Prefix = p
		id := int32(pid)
		verifnd.Assert(ct.SetParams(&pb.PrefixTransportParams{PrefixId: &id}) == nil, "C04.client.params")
		verifnd.Assert(ct.PrepareKeys(pub, secret, nil) == nil, "C04.client.prepare")
		_, err = ct.WrapConn(out)
	}
	if err != nil {
		return // (elligator retry exhausted in the model)
	}
	flight := out.Written
	if which > 0 && len(flight) >= 32 {
		// same assumption for the client's own identifiers: the randomised bytes of a prefix
		// flight are not, by chance, an HMAC identifier (the min transport looks at the first 32)
		verifnd.Assume(!verifnd.BytesEq(flight[:32], verifnd.HMACSHA256(secret, []byte("PrefixTransportHMACString"))))
		verifnd.Assume(!verifnd.BytesEq(flight[:32], verifnd.HMACSHA256(secret, []byte("MinTrasportHMACString"))))
	}
	if otherReg != nil && len(flight) >= 32 {
		// cryptographic assumption (no collision freeness is built into the hash model): the
		// client's randomised first bytes are not the other client's HMAC identifier
		verifnd.Assume(!verifnd.BytesEq(flight[:32], []byte(min.Transport{}.GetIdentifier(otherReg))))
	}
	earlySizes := []int{0, 1, 40}
	if verifnd.Thorough() {
		// thorough: early data that does not fit the handler's 4096-byte read buffer together with
		// the flight (one byte over, and more than two buffers)
		earlySizes = append(earlySizes, 4097-len(flight), 9000)
	}
	early := verifnd.Bytes("early-data", earlySizes[verifnd.Choose("early", len(earlySizes))])
	stream := append(append([]byte{}, flight...), early...)
	// ---- segmentation: up to two cuts at the positions that matter
	n := len(stream)
	cand := []int{1, len(flight) - 33, len(flight) - 32, len(flight) - 1, len(flight), len(flight) + 1}
	var cuts []int
	for _, c := range cand {
		if c > 0 && c < n {
			cuts = append(cuts, c)
		}
	}
	c1, c2 := n, n
	if len(cuts) > 0 {
		i := verifnd.Choose("cut1", len(cuts)+1)
		if i < len(cuts) {
			c1 = cuts[i]
			j := verifnd.Choose("cut2", len(cuts)-i)
			if i+1+j < len(cuts)+0 && j > 0 {
				c2 = cuts[i+j]
			}
		}
	}
	conn := &cj.VerifScriptConn{Name: "client", DeadlineErr: -1}
	prev := 0
	for _, c := range []int{c1, c2, n} {
		if c > prev {
			conn.Reads = append(conn.Reads, cj.VerifRead{N: c - prev})
			conn.Data = append(conn.Data, stream[prev:c])
			prev = c
		}
	}
	conn.Reads = append(conn.Reads, cj.VerifRead{Err: cj.VerifErr(0, "read")}) // then the client half-closes
	conn.Data = append(conn.Data, nil)
	// ---- the covert: replies with a few bytes, then closes
	covert := &cj.VerifScriptConn{Name: "covert", DeadlineErr: -1}
	covert.Reads = []cj.VerifRead{{N: 3}, {Err: cj.VerifErr(0, "read")}}
	verifnd.DialReturns(covert, nil)
	cm := newConnManager(nil)
	cm.handleNewTCPConn(rm, conn, append(net.IP{}, reg.PhantomIp...))
	verifnd.Settle()
	verifnd.Assert(verifnd.Dialed() == "192.0.2.99:443", "C04.registration-found-and-its-covert-dialled")
	if verifnd.Dialed() != "192.0.2.99:443" {
		return
	}
	verifnd.Assert(rm.VerifTimeoutUsed(reg), "C04.registration-marked-used")
	verifnd.Assert(verifnd.BytesEq(covert.Written, early), "C04.early-data-reaches-the-covert-exactly-once-in-order")
	verifnd.Assert(verifnd.BytesEq(conn.Written, covert.ReadData), "C04.covert-reply-reaches-the-client")
	verifnd.Reach("C04.done")
}

// a client connection whose reads are scheduling points (the moments at which the other
// client's segments may arrive)
type verifYieldConn struct{ *cj.VerifScriptConn }

func (c verifYieldConn) Read(p []byte) (int, error) {
	if c.Rpos < 2 {
		verifnd.Yield() // the two segments of the first flight
	}
	return c.VerifScriptConn.Read(p)
}

// VerifC04ConcurrentClients: after a probe that every transport has ruled out (the discard
// path) has come and gone, two registered clients (min transport, distinct secrets, the same
// phantom) open their connections at the same time, each first flight arriving in two segments
// cut inside the tag, under every interleaving of the two handlers at their reads: both
// registrations are found - one client's bytes never end up in the other's classification.
// Scheduling points: the clients' reads only (what the relay does after a match is C05's subject).
// sync.Pool keeps items: reuse and fresh allocation are both explored.
// verif:replay=model
func VerifC04ConcurrentClients() {
	logClientIP = false
	verifnd.LoopBound("crypto/rand.Int", 2)
	rm := cj.VerifNewManager()
	var priv [32]byte
	copy(priv[:], verifnd.Bytes("station-privkey", 32))
	pt, err := prefix.Default([][32]byte{priv})
	if err != nil {
		panic(err)
	}
	_ = rm.AddTransport(pb.TransportType_Min, min.Transport{})
	_ = rm.AddTransport(pb.TransportType_Prefix, pt)
	secrets := [][]byte{verifnd.Bytes("secret-a", 32), verifnd.Bytes("secret-b", 32)}
	ida := verifnd.HMACSHA256(secrets[0], []byte("MinTrasportHMACString"))
	idb := verifnd.HMACSHA256(secrets[1], []byte("MinTrasportHMACString"))
	verifnd.Assume(!verifnd.BytesEq(ida, idb)) // cryptographic assumption: the two clients' identifiers differ
	var regs []*cj.DecoyRegistration
	for i, s := range secrets {
		r := rm.VerifAdmit(s, pb.TransportType_Min, nil, []string{"192.0.2.99:443", "192.0.2.98:443"}[i])
		if r == nil {
			return
		}
		if i == 1 {
			r.PhantomIp = regs[0].PhantomIp
			_ = rm.TrackRegistration(r)
			rm.AddRegistration(r)
		}
		regs = append(regs, r)
	}
	phantom := append(net.IP{}, regs[0].PhantomIp...)
	var pub [32]byte
	curve25519.ScalarBaseMult(&pub, &priv)
	var conns []verifYieldConn
	for i, s := range secrets {
		out := &cj.VerifScriptConn{Name: "client-out", DeadlineErr: -1}
		ct := &min.ClientTransport{}
		if ct.PrepareKeys(pub, s, nil) != nil {
			return
		}
		if _, err := ct.WrapConn(out); err != nil {
			return
		}
		flight := out.Written
		if len(flight) < 4 {
			return
		}
		k := len(flight) - 5 // inside the tag
		c := &cj.VerifScriptConn{Name: []string{"client-a", "client-b"}[i], DeadlineErr: -1}
		c.Reads = []cj.VerifRead{{N: k}, {N: len(flight) - k}, {Err: cj.VerifErr(0, "read")}}
		c.Data = [][]byte{flight[:k], flight[k:], nil}
		conns = append(conns, verifYieldConn{c})
	}
	cm := newConnManager(nil)
	cj.Stat()
	verifnd.Settle()
	// the earlier probe: enough bytes for every transport to say "not mine", then the peer goes away
	probe := &cj.VerifScriptConn{Name: "probe", DeadlineErr: -1}
	probe.Reads = []cj.VerifRead{{N: 9000}, {Err: cj.VerifErr(0, "read")}}
	probe.Data = [][]byte{make([]byte, 9000), nil}
	cm.handleNewTCPConn(rm, probe, phantom)
	if rm.VerifTimeoutUsed(regs[0]) || rm.VerifTimeoutUsed(regs[1]) {
		return // (the all-zero probe is not a genuine flight)
	}
	// the covert is unreachable: the relay ends at once (what it does otherwise is C05's subject)
	verifnd.DialReturns(nil, cj.VerifErr(9, "dial"))
	verifnd.Settle() // the statistics goroutines are parked before the two clients arrive
	var dummy sync.Mutex
	verifnd.PreemptOnlyAt(&dummy)
	var wg sync.WaitGroup
	for i := range conns {
		wg.Add(1)
		go func(i int) {
			defer wg.Done()
			cm.handleNewTCPConn(rm, conns[i], phantom)
		}(i)
	}
	verifnd.Quiesce()
	verifnd.Assert(rm.VerifTimeoutUsed(regs[0]), "C04.concurrent.first-client-recognised")
	verifnd.Assert(rm.VerifTimeoutUsed(regs[1]), "C04.concurrent.second-client-recognised")
	verifnd.Reach("C04.concurrent.done")
}

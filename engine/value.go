package main

// Interpreter values.  The heap shape is concrete (Go pointers to cells);
// scalar leaves are *Term (constant or symbolic).
//
//   bool, intN, uintN, uintptr      *Term (w=0 for bool)
//   float32/64                      float64 (concrete) or Opaque
//   string                          Str
//   pointer                         *Value (nil pointer = (*Value)(nil))
//   struct                          Struct
//   array                           Array
//   slice                           []Value (nil slice = []Value(nil))
//   map                             *Map (nil map = (*Map)(nil))
//   chan                            *Chan
//   func                            *ssa.Function | *Closure | *ssa.Builtin
//   interface                       Iface
//   tuple                           Tuple
//   unsafe.Pointer                  UPtr

import (
	"fmt"
	"go/types"
	"strings"

	"golang.org/x/tools/go/ssa"
)

type Value interface{}

type Struct []Value
type Array []Value
type Tuple []Value

type Iface struct {
	t types.Type
	v Value
}

type Closure struct {
	Fn  *ssa.Function
	Env []Value
}

// Opaque stands for a value whose content is irrelevant (e.g. floats that only
// flow into log calls).
type Opaque struct{ what string }

type UPtr struct{ p Value }

// Str is a string of concrete length; b != nil means symbolic bytes.
type Str struct {
	s     string
	b     []*Term
	cat   []Str   // concatenation of byte strings and abstract strings (compared part-wise)
	tok   *StrTok // abstract structured string (address printed from symbolic bytes)
	opq   bool    // content unknown (formatted from symbolic operands); only flows into sinks
	taint uint8   // bitmask of taint sources (C17: client address)
}

func (s Str) Len() int {
	if s.b != nil {
		return len(s.b)
	}
	return len(s.s)
}

func (s Str) Concrete() (string, bool) {
	if s.opq || s.tok != nil || s.cat != nil {
		return "", false
	}
	if s.b == nil {
		return s.s, true
	}
	buf := make([]byte, len(s.b))
	for i, t := range s.b {
		v, ok := t.Const64()
		if !ok {
			return "", false
		}
		buf[i] = byte(v)
	}
	return string(buf), true
}

func (w *World) strAt(s Str, i int) *Term {
	if s.b != nil {
		return s.b[i]
	}
	return w.tt.BV(8, uint64(s.s[i]))
}

func (w *World) strBytes(s Str) []*Term {
	if s.b != nil {
		return s.b
	}
	out := make([]*Term, len(s.s))
	for i := 0; i < len(s.s); i++ {
		out[i] = w.tt.BV(8, uint64(s.s[i]))
	}
	return out
}

func (w *World) mkStr(b []*Term) Str {
	buf := make([]byte, len(b))
	for i, t := range b {
		v, ok := t.Const64()
		if !ok {
			cp := make([]*Term, len(b))
			copy(cp, b)
			return Str{b: cp}
		}
		buf[i] = byte(v)
	}
	return Str{s: string(buf)}
}

type mapEnt struct {
	k, v Value
}

type Map struct {
	kt, vt types.Type
	ents   Value // cell holding []mapEnt (copy on write)
}

func (m *Map) entries() []mapEnt {
	if m == nil || m.ents == nil {
		return nil
	}
	return m.ents.([]mapEnt)
}

type rangeIter struct {
	next func() Tuple
}

// ---------------------------------------------------------------- types

func deref(t types.Type) types.Type {
	if p, ok := t.Underlying().(*types.Pointer); ok {
		return p.Elem()
	}
	panic(fmt.Sprintf("deref: not a pointer: %v", t))
}

func intWidth(b *types.Basic) (w int, signed bool, ok bool) {
	switch b.Kind() {
	case types.Int8:
		return 8, true, true
	case types.Int16:
		return 16, true, true
	case types.Int32:
		return 32, true, true
	case types.Int64, types.Int:
		return 64, true, true
	case types.Uint8:
		return 8, false, true
	case types.Uint16:
		return 16, false, true
	case types.Uint32:
		return 32, false, true
	case types.Uint64, types.Uint, types.Uintptr:
		return 64, false, true
	case types.UntypedInt, types.UntypedRune:
		return 64, true, true
	}
	return 0, false, false
}

func isFloat(b *types.Basic) bool {
	switch b.Kind() {
	case types.Float32, types.Float64, types.UntypedFloat:
		return true
	}
	return false
}

func (w *World) zero(t types.Type) Value {
	switch t := t.(type) {
	case *types.Basic:
		if t.Kind() == types.UntypedNil {
			panic("untyped nil has no zero value")
		}
		if t.Info()&types.IsBoolean != 0 {
			return w.tt.F
		}
		if iw, _, ok := intWidth(t); ok {
			return w.tt.BV(iw, 0)
		}
		if isFloat(t) {
			return float64(0)
		}
		if t.Info()&types.IsString != 0 {
			return Str{}
		}
		if t.Kind() == types.UnsafePointer {
			return UPtr{}
		}
		if t.Info()&types.IsComplex != 0 {
			return complex128(0)
		}
	case *types.Pointer:
		return (*Value)(nil)
	case *types.Array:
		n := int(t.Len())
		a := make(Array, n)
		if n > 0 {
			et := t.Elem()
			if _, isB := et.Underlying().(*types.Basic); isB {
				z := w.zero(et.Underlying())
				for i := range a {
					a[i] = z
				}
			} else {
				for i := range a {
					a[i] = w.zero(et)
				}
			}
		}
		return a
	case *types.Named:
		return w.zero(t.Underlying())
	case *types.Alias:
		return w.zero(types.Unalias(t))
	case *types.Interface:
		return Iface{}
	case *types.Slice:
		return []Value(nil)
	case *types.Struct:
		s := make(Struct, t.NumFields())
		for i := range s {
			s[i] = w.zero(t.Field(i).Type())
		}
		return s
	case *types.Tuple:
		if t.Len() == 1 {
			return w.zero(t.At(0).Type())
		}
		s := make(Tuple, t.Len())
		for i := range s {
			s[i] = w.zero(t.At(i).Type())
		}
		return s
	case *types.Chan:
		return (*Chan)(nil)
	case *types.Map:
		return (*Map)(nil)
	case *types.Signature:
		return (*ssa.Function)(nil)
	}
	panic(fmt.Sprintf("zero: unexpected type %T %v", t, t))
}

// copyVal makes an unaliased copy of aggregate values.
func copyVal(v Value) Value {
	switch v := v.(type) {
	case Struct:
		n := make(Struct, len(v))
		for i, x := range v {
			n[i] = copyVal(x)
		}
		return n
	case Array:
		n := make(Array, len(v))
		for i, x := range v {
			n[i] = copyVal(x)
		}
		return n
	case Tuple:
		return v
	}
	return v
}

func (w *World) load(addr *Value) Value {
	return copyVal(*addr)
}

// store writes v through addr in place (so interior pointers stay valid) and
// logs every leaf write on the trail.
func (w *World) store(addr *Value, v Value) {
	switch v := v.(type) {
	case Struct:
		if lhs, ok := (*addr).(Struct); ok && len(lhs) == len(v) {
			for i := range lhs {
				w.store(&lhs[i], v[i])
			}
			return
		}
		w.storeLeaf(addr, copyVal(v))
	case Array:
		if lhs, ok := (*addr).(Array); ok && len(lhs) == len(v) {
			for i := range lhs {
				w.store(&lhs[i], v[i])
			}
			return
		}
		w.storeLeaf(addr, copyVal(v))
	default:
		w.storeLeaf(addr, v)
	}
}

type trailEnt struct {
	p   *Value
	old Value
}

func (w *World) storeLeaf(addr *Value, v Value) {
	if w.trailOn {
		w.trail = append(w.trail, trailEnt{addr, *addr})
	}
	*addr = v
}

func (w *World) undoTrail(to int) {
	for i := len(w.trail) - 1; i >= to; i-- {
		e := w.trail[i]
		*e.p = e.old
	}
	w.trail = w.trail[:to]
}

// ---------------------------------------------------------------- printing

func (w *World) show(v Value) string {
	return w.showDepth(v, 3)
}

func (w *World) showDepth(v Value, d int) string {
	if d == 0 {
		return "…"
	}
	switch v := v.(type) {
	case nil:
		return "<nil>"
	case *Term:
		s := v.String()
		if len(s) > 80 {
			s = s[:80] + "…"
		}
		return s
	case Str:
		if s, ok := v.Concrete(); ok {
			return fmt.Sprintf("%q", s)
		}
		return fmt.Sprintf("symstr[%d]", v.Len())
	case *Value:
		if v == nil {
			return "nil"
		}
		return "&" + w.showDepth(*v, d-1)
	case Struct:
		var sb strings.Builder
		sb.WriteString("{")
		for i, x := range v {
			if i > 0 {
				sb.WriteString(", ")
			}
			sb.WriteString(w.showDepth(x, d-1))
		}
		sb.WriteString("}")
		return sb.String()
	case Array:
		return fmt.Sprintf("array[%d]", len(v))
	case []Value:
		if v == nil {
			return "nil-slice"
		}
		return fmt.Sprintf("slice[%d]", len(v))
	case Iface:
		if v.t == nil {
			return "nil-iface"
		}
		return fmt.Sprintf("iface(%v: %s)", v.t, w.showDepth(v.v, d-1))
	case *Map:
		if v == nil {
			return "nil-map"
		}
		return fmt.Sprintf("map[%d]", len(v.entries()))
	case *ssa.Function:
		if v == nil {
			return "nil-func"
		}
		return v.String()
	case *Closure:
		return "closure " + v.Fn.String()
	case float64:
		return fmt.Sprint(v)
	case Tuple:
		var sb strings.Builder
		sb.WriteString("(")
		for i, x := range v {
			if i > 0 {
				sb.WriteString(", ")
			}
			sb.WriteString(w.showDepth(x, d-1))
		}
		sb.WriteString(")")
		return sb.String()
	}
	return fmt.Sprintf("%T", v)
}

package main

// sync, sync/atomic, time, randomness.

import (
	"fmt"
	"go/types"

	"golang.org/x/tools/go/ssa"
)

func (w *World) i32(v Value) int64 {
	t := v.(*Term)
	c, ok := t.Const64()
	if !ok {
		panic(pathEnd{"unsupported", "symbolic synchronisation state"})
	}
	return sext64(c, t.w)
}

func init() {
	nop := func(w *World, t *Thread, fr *frame, fn *ssa.Function, args []Value) Value { return w.zeroResults(fn) }

	// ---- Mutex: state field 0/1
	reg("(*sync.Mutex).Lock", func(w *World, t *Thread, fr *frame, fn *ssa.Function, args []Value) Value {
		p := args[0].(*Value)
		w.nilCheck(fr, p)
		st := &(*p).(Struct)[0]
		w.syncYield(t, p, "Mutex.Lock")
		w.block(t, "Mutex.Lock", func() bool { return w.i32(*st) == 0 })
		w.storeLeaf(st, w.tt.BV(32, 1))
		return nil
	})
	reg("(*sync.Mutex).TryLock", func(w *World, t *Thread, fr *frame, fn *ssa.Function, args []Value) Value {
		p := args[0].(*Value)
		w.nilCheck(fr, p)
		st := &(*p).(Struct)[0]
		w.syncYield(t, p, "Mutex.TryLock")
		if w.i32(*st) == 0 {
			w.storeLeaf(st, w.tt.BV(32, 1))
			return w.tt.T
		}
		return w.tt.F
	})
	reg("(*sync.Mutex).Unlock", func(w *World, t *Thread, fr *frame, fn *ssa.Function, args []Value) Value {
		p := args[0].(*Value)
		w.nilCheck(fr, p)
		st := &(*p).(Struct)[0]
		if w.i32(*st) == 0 {
			panic(goPanic{v: Iface{t: types.Typ[types.String], v: Str{s: "fatal error: sync: unlock of unlocked mutex"}}, where: w.where(fr)})
		}
		w.storeLeaf(st, w.tt.BV(32, 0))
		return nil
	})

	// ---- RWMutex: w.state = writer holds (0/1); readerCount.v = active readers;
	// readerWait.v = number of writers waiting (writer preference: a pending
	// Lock blocks new RLocks, exactly as documented for sync.RWMutex).
	rw := func(p *Value) (wstate, readers, wwait *Value) {
		s := (*p).(Struct)
		wstate = &s[0].(Struct)[0]
		readers = &s[3].(Struct)[1]
		wwait = &s[4].(Struct)[1]
		return
	}
	reg("(*sync.RWMutex).RLock", func(w *World, t *Thread, fr *frame, fn *ssa.Function, args []Value) Value {
		p := args[0].(*Value)
		w.nilCheck(fr, p)
		ws, rd, ww := rw(p)
		w.syncYield(t, p, "RWMutex.RLock")
		w.block(t, "RWMutex.RLock", func() bool { return w.i32(*ws) == 0 && w.i32(*ww) == 0 })
		w.storeLeaf(rd, w.tt.BV(32, uint64(w.i32(*rd)+1)))
		return nil
	})
	reg("(*sync.RWMutex).TryRLock", func(w *World, t *Thread, fr *frame, fn *ssa.Function, args []Value) Value {
		p := args[0].(*Value)
		w.nilCheck(fr, p)
		ws, rd, ww := rw(p)
		w.syncYield(t, p, "RWMutex.TryRLock")
		if w.i32(*ws) == 0 && w.i32(*ww) == 0 {
			w.storeLeaf(rd, w.tt.BV(32, uint64(w.i32(*rd)+1)))
			return w.tt.T
		}
		return w.tt.F
	})
	reg("(*sync.RWMutex).RUnlock", func(w *World, t *Thread, fr *frame, fn *ssa.Function, args []Value) Value {
		p := args[0].(*Value)
		w.nilCheck(fr, p)
		_, rd, _ := rw(p)
		if w.i32(*rd) <= 0 {
			panic(goPanic{v: Iface{t: types.Typ[types.String], v: Str{s: "fatal error: sync: RUnlock of unlocked RWMutex"}}, where: w.where(fr)})
		}
		w.storeLeaf(rd, w.tt.BV(32, uint64(w.i32(*rd)-1)))
		return nil
	})
	reg("(*sync.RWMutex).Lock", func(w *World, t *Thread, fr *frame, fn *ssa.Function, args []Value) Value {
		p := args[0].(*Value)
		w.nilCheck(fr, p)
		ws, rd, ww := rw(p)
		w.syncYield(t, p, "RWMutex.Lock")
		if !(w.i32(*ws) == 0 && w.i32(*rd) == 0) {
			w.storeLeaf(ww, w.tt.BV(32, uint64(w.i32(*ww)+1)))
			w.block(t, "RWMutex.Lock", func() bool { return w.i32(*ws) == 0 && w.i32(*rd) == 0 })
			w.storeLeaf(ww, w.tt.BV(32, uint64(w.i32(*ww)-1)))
		}
		w.storeLeaf(ws, w.tt.BV(32, 1))
		return nil
	})
	reg("(*sync.RWMutex).TryLock", func(w *World, t *Thread, fr *frame, fn *ssa.Function, args []Value) Value {
		p := args[0].(*Value)
		w.nilCheck(fr, p)
		ws, rd, _ := rw(p)
		w.syncYield(t, p, "RWMutex.TryLock")
		if w.i32(*ws) == 0 && w.i32(*rd) == 0 {
			w.storeLeaf(ws, w.tt.BV(32, 1))
			return w.tt.T
		}
		return w.tt.F
	})
	reg("(*sync.RWMutex).Unlock", func(w *World, t *Thread, fr *frame, fn *ssa.Function, args []Value) Value {
		p := args[0].(*Value)
		w.nilCheck(fr, p)
		ws, _, _ := rw(p)
		if w.i32(*ws) == 0 {
			panic(goPanic{v: Iface{t: types.Typ[types.String], v: Str{s: "fatal error: sync: Unlock of unlocked RWMutex"}}, where: w.where(fr)})
		}
		w.storeLeaf(ws, w.tt.BV(32, 0))
		return nil
	})

	// ---- WaitGroup: state.v holds the counter
	wgc := func(p *Value) *Value { return &(*p).(Struct)[1].(Struct)[2] }
	reg("(*sync.WaitGroup).Add", func(w *World, t *Thread, fr *frame, fn *ssa.Function, args []Value) Value {
		p := args[0].(*Value)
		w.nilCheck(fr, p)
		c := wgc(p)
		d := w.concreteInt(fr, args[1], "WaitGroup.Add")
		cur := int64((*c).(*Term).k) + d
		if cur < 0 {
			panic(goPanic{v: Iface{t: types.Typ[types.String], v: Str{s: "sync: negative WaitGroup counter"}}, where: w.where(fr)})
		}
		w.storeLeaf(c, w.tt.BV(64, uint64(cur)))
		return nil
	})
	reg("(*sync.WaitGroup).Wait", func(w *World, t *Thread, fr *frame, fn *ssa.Function, args []Value) Value {
		p := args[0].(*Value)
		w.nilCheck(fr, p)
		c := wgc(p)
		w.yield(t, "WaitGroup.Wait")
		w.block(t, "WaitGroup.Wait", func() bool { return (*c).(*Term).k == 0 })
		return nil
	})

	// ---- Pool
	// sync.Pool: Put keeps the item; Get hands out the most recently kept item or a new one -
	// both are behaviours the real pool may show, and both are explored (a decision) whenever
	// something is kept.  (A pool that forgets everything is the "new one" branch throughout.)
	poolItems := func(w *World, p *Value) []Value {
		if v, ok := w.ext["syncpools"]; ok {
			return v.(map[*Value][]Value)[p]
		}
		return nil
	}
	setPoolItems := func(w *World, p *Value, items []Value) {
		var m map[*Value][]Value
		if v, ok := w.ext["syncpools"]; ok {
			m = v.(map[*Value][]Value)
		} else {
			m = map[*Value][]Value{}
			w.ext["syncpools"] = m
		}
		m[p] = items
	}
	reg("(*sync.Pool).Get", func(w *World, t *Thread, fr *frame, fn *ssa.Function, args []Value) Value {
		p := args[0].(*Value)
		if items := poolItems(w, p); len(items) > 0 {
			if w.chooseN(2, "sync.Pool reuse") == 0 {
				it := items[len(items)-1]
				setPoolItems(w, p, items[:len(items)-1:len(items)-1])
				return it
			}
		}
		st := recvStruct(fn)
		nf := *w.field(p, st, "New")
		switch f := nf.(type) {
		case *ssa.Function:
			if f == nil {
				return Iface{}
			}
		}
		return w.callValue(t, fr, nf, nil)
	})
	reg("(*sync.Pool).Put", func(w *World, t *Thread, fr *frame, fn *ssa.Function, args []Value) Value {
		p := args[0].(*Value)
		items := poolItems(w, p)
		setPoolItems(w, p, append(items[:len(items):len(items)], args[1]))
		return nil
	})

	// ---- atomic primitives
	for _, ty := range []string{"Int32", "Int64", "Uint32", "Uint64", "Uintptr", "Pointer"} {
		reg("sync/atomic.Load"+ty, func(w *World, t *Thread, fr *frame, fn *ssa.Function, args []Value) Value {
			p := args[0].(*Value)
			w.nilCheck(fr, p)
			return w.load(p)
		})
		reg("sync/atomic.Store"+ty, func(w *World, t *Thread, fr *frame, fn *ssa.Function, args []Value) Value {
			p := args[0].(*Value)
			w.nilCheck(fr, p)
			w.store(p, args[1])
			return nil
		})
		reg("sync/atomic.Swap"+ty, func(w *World, t *Thread, fr *frame, fn *ssa.Function, args []Value) Value {
			p := args[0].(*Value)
			w.nilCheck(fr, p)
			old := w.load(p)
			w.store(p, args[1])
			return old
		})
		reg("sync/atomic.CompareAndSwap"+ty, func(w *World, t *Thread, fr *frame, fn *ssa.Function, args []Value) Value {
			p := args[0].(*Value)
			w.nilCheck(fr, p)
			eq := w.equals(nil, *p, args[1])
			if w.decideBool(eq, "CAS") {
				w.store(p, args[2])
				return w.tt.T
			}
			return w.tt.F
		})
		if ty != "Pointer" {
			reg("sync/atomic.Add"+ty, func(w *World, t *Thread, fr *frame, fn *ssa.Function, args []Value) Value {
				p := args[0].(*Value)
				w.nilCheck(fr, p)
				nv := w.tt.Bin(OpAdd, (*p).(*Term), args[1].(*Term))
				w.store(p, nv)
				return nv
			})
			reg("sync/atomic.And"+ty, func(w *World, t *Thread, fr *frame, fn *ssa.Function, args []Value) Value {
				p := args[0].(*Value)
				old := (*p).(*Term)
				w.store(p, w.tt.Bin(OpAnd, old, args[1].(*Term)))
				return old
			})
			reg("sync/atomic.Or"+ty, func(w *World, t *Thread, fr *frame, fn *ssa.Function, args []Value) Value {
				p := args[0].(*Value)
				old := (*p).(*Term)
				w.store(p, w.tt.Bin(OpOr, old, args[1].(*Term)))
				return old
			})
		}
	}
	reg("(*sync/atomic.Value).Load", func(w *World, t *Thread, fr *frame, fn *ssa.Function, args []Value) Value {
		p := args[0].(*Value)
		w.nilCheck(fr, p)
		return (*p).(Struct)[0]
	})
	reg("(*sync/atomic.Value).Store", func(w *World, t *Thread, fr *frame, fn *ssa.Function, args []Value) Value {
		p := args[0].(*Value)
		w.nilCheck(fr, p)
		if args[1].(Iface).t == nil {
			panic(goPanic{v: Iface{t: types.Typ[types.String], v: Str{s: "sync/atomic: store of nil value into Value"}}, where: w.where(fr)})
		}
		w.store(&(*p).(Struct)[0], args[1])
		return nil
	})
	reg("(*sync/atomic.Value).Swap", func(w *World, t *Thread, fr *frame, fn *ssa.Function, args []Value) Value {
		p := args[0].(*Value)
		old := (*p).(Struct)[0]
		w.store(&(*p).(Struct)[0], args[1])
		return old
	})
	reg("(*sync/atomic.Value).CompareAndSwap", func(w *World, t *Thread, fr *frame, fn *ssa.Function, args []Value) Value {
		p := args[0].(*Value)
		cur := (*p).(Struct)[0]
		eq := w.equals(nil, cur, args[1])
		if w.decideBool(eq, "CAS") {
			w.store(&(*p).(Struct)[0], args[2])
			return w.tt.T
		}
		return w.tt.F
	})

	// ---- time
	reg("time.Now", func(w *World, t *Thread, fr *frame, fn *ssa.Function, args []Value) Value {
		return w.mkTime(w.now())
	})
	reg("time.runtimeNano", func(w *World, t *Thread, fr *frame, fn *ssa.Function, args []Value) Value { return w.now() })
	reg("time.Since", func(w *World, t *Thread, fr *frame, fn *ssa.Function, args []Value) Value {
		return w.tt.Bin(OpSub, w.now(), w.timeNs(fr, args[0]))
	})
	reg("time.Until", func(w *World, t *Thread, fr *frame, fn *ssa.Function, args []Value) Value {
		return w.tt.Bin(OpSub, w.timeNs(fr, args[0]), w.now())
	})
	reg("(time.Time).Sub", func(w *World, t *Thread, fr *frame, fn *ssa.Function, args []Value) Value {
		return w.tt.Bin(OpSub, w.timeNs(fr, args[0]), w.timeNs(fr, args[1]))
	})
	reg("(time.Time).Add", func(w *World, t *Thread, fr *frame, fn *ssa.Function, args []Value) Value {
		return w.mkTime(w.tt.Bin(OpAdd, w.timeNs(fr, args[0]), args[1].(*Term)))
	})
	reg("(time.Time).After", func(w *World, t *Thread, fr *frame, fn *ssa.Function, args []Value) Value {
		return w.tt.Cmp(OpSLt, w.timeNs(fr, args[1]), w.timeNs(fr, args[0]))
	})
	reg("(time.Time).Before", func(w *World, t *Thread, fr *frame, fn *ssa.Function, args []Value) Value {
		return w.tt.Cmp(OpSLt, w.timeNs(fr, args[0]), w.timeNs(fr, args[1]))
	})
	reg("(time.Time).Equal", func(w *World, t *Thread, fr *frame, fn *ssa.Function, args []Value) Value {
		return w.tt.Eq(w.timeNs(fr, args[0]), w.timeNs(fr, args[1]))
	})
	reg("(time.Time).Compare", func(w *World, t *Thread, fr *frame, fn *ssa.Function, args []Value) Value {
		a, b := w.timeNs(fr, args[0]), w.timeNs(fr, args[1])
		return w.tt.Ite(w.tt.Cmp(OpSLt, a, b), w.tt.BV(64, ^uint64(0)), w.tt.Ite(w.tt.Eq(a, b), w.tt.BV(64, 0), w.tt.BV(64, 1)))
	})
	reg("(time.Time).IsZero", func(w *World, t *Thread, fr *frame, fn *ssa.Function, args []Value) Value {
		s := args[0].(Struct)
		return w.tt.And(w.tt.Eq(s[0].(*Term), w.tt.BV(64, 0)), w.tt.Eq(s[1].(*Term), w.tt.BV(64, 0)))
	})
	reg("(time.Time).UnixNano", func(w *World, t *Thread, fr *frame, fn *ssa.Function, args []Value) Value {
		return w.timeNs(fr, args[0])
	})
	reg("(time.Time).Unix", func(w *World, t *Thread, fr *frame, fn *ssa.Function, args []Value) Value {
		ns := w.timeNs(fr, args[0])
		if c, ok := ns.Const64(); ok {
			return w.tt.BV(64, uint64(int64(c)/1e9))
		}
		return w.tt.Fresh("unix", 64)
	})
	opaqueStr := func(w *World, t *Thread, fr *frame, fn *ssa.Function, args []Value) Value { return Str{opq: true} }
	reg("(time.Time).String", opaqueStr)
	reg("(time.Time).Format", opaqueStr)
	reg("(time.Time).Round", func(w *World, t *Thread, fr *frame, fn *ssa.Function, args []Value) Value { return args[0] })
	reg("(time.Time).Truncate", func(w *World, t *Thread, fr *frame, fn *ssa.Function, args []Value) Value { return args[0] })
	reg("(time.Duration).String", func(w *World, t *Thread, fr *frame, fn *ssa.Function, args []Value) Value {
		d := args[0].(*Term)
		if c, ok := d.Const64(); ok {
			return Str{s: durationString(int64(c))}
		}
		return Str{opq: true}
	})
	secs := func(div float64) intrinsic {
		return func(w *World, t *Thread, fr *frame, fn *ssa.Function, args []Value) Value {
			d := args[0].(*Term)
			if c, ok := d.Const64(); ok {
				return float64(int64(c)) / div
			}
			return Opaque{"float of symbolic duration"}
		}
	}
	reg("(time.Duration).Seconds", secs(1e9))
	reg("(time.Duration).Minutes", secs(60e9))
	reg("(time.Duration).Hours", secs(3600e9))
	reg("time.Sleep", func(w *World, t *Thread, fr *frame, fn *ssa.Function, args []Value) Value {
		d := args[0].(*Term)
		w.sleep(t, fr, d)
		return nil
	})
	reg("time.ParseDuration", func(w *World, t *Thread, fr *frame, fn *ssa.Function, args []Value) Value {
		s := w.concStr(fr, args[0], "duration string")
		d, err := parseDurationNative(s)
		if err != nil {
			return Tuple{w.tt.BV(64, 0), w.mkError(err.Error())}
		}
		return Tuple{w.tt.BV(64, uint64(d)), w.nilError()}
	})

	// ---- randomness: fresh symbolic values
	reg("crypto/rand.Read", func(w *World, t *Thread, fr *frame, fn *ssa.Function, args []Value) Value {
		b := args[0].([]Value)
		for i := range b {
			if v, ok := w.ext["fixrandom"]; ok {
				w.store(&b[i], v.(*Term))
			} else {
				w.store(&b[i], w.cryptoRandByte())
			}
		}
		return Tuple{w.tt.BV(64, uint64(len(b))), w.nilError()}
	})
	reg("io.ReadFull$cryptorand", nil)
	delete(intrinsics, "io.ReadFull$cryptorand")
	freshInt := func(width int, nonneg bool) intrinsic {
		return func(w *World, t *Thread, fr *frame, fn *ssa.Function, args []Value) Value {
			v := w.tt.Fresh("mrand", width)
			if nonneg {
				w.assumeNoCheck(w.tt.Cmp(OpSLe, w.tt.BV(width, 0), v))
			}
			return v
		}
	}
	reg("math/rand.Int63", freshInt(64, true))
	reg("math/rand.Int31", freshInt(32, true))
	reg("math/rand.Int", freshInt(64, true))
	reg("math/rand.Uint32", freshInt(32, false))
	reg("math/rand.Uint64", freshInt(64, false))
	bounded := func(width int) intrinsic {
		return func(w *World, t *Thread, fr *frame, fn *ssa.Function, args []Value) Value {
			n := args[len(args)-1].(*Term)
			if w.decideBool(w.tt.Cmp(OpSLe, n, w.tt.BV(width, 0)), "rand.Intn arg") {
				panic(goPanic{v: Iface{t: types.Typ[types.String], v: Str{s: "invalid argument to Intn"}}, where: w.where(fr)})
			}
			v := w.tt.Fresh("mrandn", width)
			w.logND("math/rand.Intn", "env-i64", []*Term{v}, 0)
			w.assumeNoCheck(w.tt.And(w.tt.Cmp(OpSLe, w.tt.BV(width, 0), v), w.tt.Cmp(OpSLt, v, n)))
			return v
		}
	}
	reg("math/rand.Intn", bounded(64))
	reg("math/rand.Int63n", bounded(64))
	reg("math/rand.Int31n", bounded(32))
	reg("(*math/rand.Rand).Intn", bounded(64))
	reg("(*math/rand.Rand).Int63n", bounded(64))
	reg("(*math/rand.Rand).Int31n", bounded(32))
	reg("math/rand.Float64", func(w *World, t *Thread, fr *frame, fn *ssa.Function, args []Value) Value {
		return w.newFUnit(w.tt.Fresh("mrandf", 1).name)
	})
	reg("math/rand.Seed", nop)
	reg("math/rand.NewSource", func(w *World, t *Thread, fr *frame, fn *ssa.Function, args []Value) Value {
		pkg := w.prog.ImportedPackage("math/rand")
		rt := pkg.Type("rngSource").Object().Type()
		cell := new(Value)
		*cell = w.zero(rt)
		return Iface{t: types.NewPointer(rt), v: cell}
	})
	reg("math/rand.New", func(w *World, t *Thread, fr *frame, fn *ssa.Function, args []Value) Value {
		cell := new(Value)
		*cell = w.zero(deref(fn.Signature.Results().At(0).Type()))
		return cell
	})
	reg("(*math/rand.Rand).Int63", freshInt(64, true))
	reg("(*math/rand.Rand).Int31", freshInt(32, true))
	reg("(*math/rand.Rand).Int", freshInt(64, true))
	reg("(*math/rand.Rand).Uint32", freshInt(32, false))
	reg("(*math/rand.Rand).Uint64", freshInt(64, false))
	reg("(*math/rand.Rand).Seed", nop)
	reg("(*math/rand.Rand).Float64", func(w *World, t *Thread, fr *frame, fn *ssa.Function, args []Value) Value {
		return w.newFUnit(w.tt.Fresh("mrandf", 1).name)
	})
	mread := func(off int) intrinsic {
		return func(w *World, t *Thread, fr *frame, fn *ssa.Function, args []Value) Value {
			b := args[off].([]Value)
			for i := range b {
				w.store(&b[i], w.tt.Fresh("mrandb", 8))
			}
			return Tuple{w.tt.BV(64, uint64(len(b))), w.nilError()}
		}
	}
	reg("math/rand.Read", mread(0))
	reg("(*math/rand.Rand).Read", mread(1))
	reg("math/rand.Shuffle", nop)
}

// ---------------------------------------------------------------- clock model

const timeHasMonotonic = uint64(1) << 63

func (w *World) now() *Term {
	if v, ok := w.ext["clock"]; ok {
		return v.(*Term)
	}
	// the epoch of the model clock: a fixed instant, 2^40 ns
	c := w.tt.BV(64, 1<<40)
	w.ext["clock"] = c
	return c
}

func (w *World) setNow(t *Term) { w.ext["clock"] = t }

func (w *World) mkTime(ns *Term) Value {
	return Struct{w.tt.BV(64, timeHasMonotonic), ns, (*Value)(nil)}
}

func (w *World) timeNs(fr *frame, v Value) *Term {
	s := v.(Struct)
	wall := s[0].(*Term)
	if c, ok := wall.Const64(); ok {
		if c == timeHasMonotonic {
			return s[1].(*Term)
		}
		if c == 0 {
			if e, ok := s[1].(*Term).Const64(); ok && e == 0 {
				return w.tt.BV(64, uint64(1)<<63|uint64(1)<<62) // the zero Time is before everything
			}
		}
	}
	w.unsupported(fr, "time.Time value that did not come from the clock model")
	return nil
}

// sleep advances the model clock; with other threads present it is a
// scheduling point and the clock only moves forward.
func (w *World) sleep(t *Thread, fr *frame, d *Term) {
	w.res.Models["time.Sleep"] = true
	if w.timersFire() {
		// a sleep is a timer of its own: the thread resumes when the clock reaches it
		ch := w.newModelTimer(fr, d)
		w.block(t, "Sleep", func() bool { return len(ch.items()) > 0 })
		return
	}
	wake := w.tt.Bin(OpAdd, w.now(), d)
	if len(w.threads) > 1 {
		w.yield(t, "Sleep")
	}
	// the clock is at least wake afterwards
	cur := w.now()
	later := w.tt.Cmp(OpSLt, cur, wake)
	if later == w.tt.T {
		w.setNow(wake)
	} else if later != w.tt.F {
		w.setNow(w.tt.Ite(later, wake, cur))
	}
}

func durationString(d int64) string {
	return fmt.Sprint(durationT(d))
}

// syncYield is the scheduling point before an acquire-type operation on a
// synchronisation object.  The first thread to touch an object does not need one:
// a schedule in which another thread gets there first is reached from this
// thread's previous scheduling point (all operations in between are on objects
// that have their own scheduling points once shared).
func (w *World) syncYield(t *Thread, obj interface{}, what string) {
	if v, ok := w.ext["preemptonly"]; ok {
		if p, isCell := obj.(*Value); isCell {
			if !v.(map[interface{}]bool)[p] {
				return // not one of the objects the harness explores interleavings on
			}
			w.yield(t, what)
			return
		}
	}
	if _, ft := w.ext["firsttouch"]; !ft {
		w.yield(t, what)
		return
	}
	var m map[interface{}]map[int]bool
	if v, ok := w.ext["synctouch"]; ok {
		m = v.(map[interface{}]map[int]bool)
	} else {
		m = map[interface{}]map[int]bool{}
		w.ext["synctouch"] = m
	}
	set := m[obj]
	if set == nil {
		set = map[int]bool{}
		m[obj] = set
	}
	shared := false
	for id := range set {
		if id != t.id {
			shared = true
		}
	}
	set[t.id] = true
	if _, sel := w.ext["selectshared"]; sel {
		shared = true
		delete(w.ext, "selectshared")
	}
	if !shared {
		if _, full := w.ext["fullsched"]; !full {
			return
		}
	}
	w.yield(t, what)
}

// touchOnly records that t uses obj, and forces the next syncYield of this
// operation to be a real scheduling point if somebody else uses it too.
func (w *World) touchOnly(t *Thread, obj interface{}) {
	var m map[interface{}]map[int]bool
	if v, ok := w.ext["synctouch"]; ok {
		m = v.(map[interface{}]map[int]bool)
	} else {
		m = map[interface{}]map[int]bool{}
		w.ext["synctouch"] = m
	}
	set := m[obj]
	if set == nil {
		set = map[int]bool{}
		m[obj] = set
	}
	for id := range set {
		if id != t.id {
			w.ext["selectshared"] = true
		}
	}
	set[t.id] = true
}

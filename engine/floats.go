package main

// Symbolic floats, limited to the two shapes the code under test needs:
//   FSym  - a monotone function of one symbolic integer (float64(n)/10.0 ...),
//           compared with constants by searching the threshold natively;
//   FUnit - an unknown number in [0,1) (math/rand.Float64), compared with
//           constants through order-consistent boolean symbols.

import (
	"go/token"
	"math"
)

type FSym struct {
	num    *Term // 64-bit
	lo, hi int64
	eval   func(int64) float64
}

type fcmp struct {
	c float64
	b *Term // unit < c
}

type FUnit struct {
	cmps *[]fcmp
	name string
}

func (w *World) newFUnit(name string) *FUnit {
	return &FUnit{cmps: &[]fcmp{}, name: name}
}

// less returns the term for (u < c).
func (w *World) funitLess(u *FUnit, c float64) *Term {
	if c <= 0 {
		return w.tt.F
	}
	if c >= 1 {
		return w.tt.T
	}
	for _, k := range *u.cmps {
		if k.c == c {
			return k.b
		}
	}
	b := w.tt.Fresh(u.name+"_lt", 0)
	for _, k := range *u.cmps {
		if k.c <= c {
			w.assumeNoCheck(w.tt.Implies(k.b, b))
		} else {
			w.assumeNoCheck(w.tt.Implies(b, k.b))
		}
	}
	*u.cmps = append(*u.cmps, fcmp{c, b})
	return b
}

// fsymPred: term for pred(f(num)) where pred∘f is monotone over [lo,hi].
func (w *World) fsymPred(f *FSym, pred func(float64) bool) *Term {
	pl, ph := pred(f.eval(f.lo)), pred(f.eval(f.hi))
	if pl == ph {
		return w.tt.Bool(pl)
	}
	// boundary: smallest n with pred(n) == ph
	lo, hi := f.lo, f.hi
	for lo < hi {
		mid := lo + (hi-lo)/2
		if pred(f.eval(mid)) == ph {
			hi = mid
		} else {
			lo = mid + 1
		}
	}
	ge := w.tt.Cmp(OpSLe, w.tt.BV(64, uint64(lo)), f.num) // num >= boundary
	if ph {
		return ge
	}
	return w.tt.Not(ge)
}

func (w *World) floatBinop(op token.Token, x, y Value) (Value, bool) {
	// FSym with constant
	if fs, ok := x.(*FSym); ok {
		if c, ok := y.(float64); ok {
			switch op {
			case token.ADD, token.SUB, token.MUL, token.QUO:
				ev := fs.eval
				return &FSym{num: fs.num, lo: fs.lo, hi: fs.hi, eval: func(n int64) float64 { return farith(op, ev(n), c) }}, true
			case token.LSS:
				return w.fsymPred(fs, func(v float64) bool { return v < c }), true
			case token.LEQ:
				return w.fsymPred(fs, func(v float64) bool { return v <= c }), true
			case token.GTR:
				return w.fsymPred(fs, func(v float64) bool { return v > c }), true
			case token.GEQ:
				return w.fsymPred(fs, func(v float64) bool { return v >= c }), true
			}
		}
	}
	if fs, ok := y.(*FSym); ok {
		if c, ok := x.(float64); ok {
			switch op {
			case token.ADD, token.SUB, token.MUL, token.QUO:
				ev := fs.eval
				return &FSym{num: fs.num, lo: fs.lo, hi: fs.hi, eval: func(n int64) float64 { return farith(op, c, ev(n)) }}, true
			case token.LSS:
				return w.fsymPred(fs, func(v float64) bool { return c < v }), true
			case token.LEQ:
				return w.fsymPred(fs, func(v float64) bool { return c <= v }), true
			case token.GTR:
				return w.fsymPred(fs, func(v float64) bool { return c > v }), true
			case token.GEQ:
				return w.fsymPred(fs, func(v float64) bool { return c >= v }), true
			}
		}
	}
	if u, ok := x.(*FUnit); ok {
		if c, ok := y.(float64); ok {
			switch op {
			case token.LSS:
				return w.funitLess(u, c), true
			case token.GEQ:
				return w.tt.Not(w.funitLess(u, c)), true
			}
		}
	}
	if u, ok := y.(*FUnit); ok {
		if c, ok := x.(float64); ok {
			switch op {
			case token.GTR:
				return w.funitLess(u, c), true
			case token.LEQ:
				return w.tt.Not(w.funitLess(u, c)), true
			}
		}
	}
	return nil, false
}

func farith(op token.Token, a, b float64) float64 {
	switch op {
	case token.ADD:
		return a + b
	case token.SUB:
		return a - b
	case token.MUL:
		return a * b
	case token.QUO:
		return a / b
	}
	return math.NaN()
}

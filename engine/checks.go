package main

// `gosym check Cxx`: find the harness functions of the property, explore each
// in its own World, replay counterexamples natively, classify against the
// committed known-findings file, write evidence, print verdict lines.

import (
	"encoding/json"
	"fmt"
	"go/ast"
	"go/parser"
	"go/token"
	"os"
	"os/exec"
	"path/filepath"
	"regexp"
	"runtime"
	"sort"
	"strconv"
	"strings"
	"sync"
	"time"
)

type KnownFinding struct {
	ID       string `json:"id"`
	Property string `json:"property"`
	Status   string `json:"status"` // open | fixed
	Commit   string `json:"commit,omitempty"`
	What     string `json:"what"`
	// Obligations restricts the finding to failures of these obligations (a trailing *
	// matches any suffix); empty = any obligation of the property's harnesses.
	Obligations []string `json:"obligations,omitempty"`
}

type KnownFile struct {
	Findings []KnownFinding `json:"findings"`
}

func loadKnown() (map[string]KnownFinding, error) {
	out := map[string]KnownFinding{}
	b, err := os.ReadFile(filepath.Join(verifDir, "known_findings.json"))
	if err != nil {
		if os.IsNotExist(err) {
			return out, nil
		}
		return nil, err
	}
	var kf KnownFile
	if err := json.Unmarshal(b, &kf); err != nil {
		return nil, err
	}
	for _, f := range kf.Findings {
		out[f.ID] = f
	}
	return out, nil
}

type harnessRef struct {
	dir           string // package dir relative to repo root
	fn            string
	tier          string // "" = both, "thorough" = thorough only
	shards        int    // top-level Choose farmed out over this many workers
	shard         int
	modelFallback bool // native replay first; schedule-dependent counterexamples fall back to the engine
	model         bool // counterexamples are replayed in the engine with the vector pinned (environment faults cannot be injected natively)
}

var shardsRe = regexp.MustCompile(`verif:shards=([0-9]+)`)

var verifFuncRe = regexp.MustCompile(`^Verif(C[0-9]{2,3}|SELF)`)

// findHarnesses scans /verif/harness for functions named Verif<id>…
func findHarnesses(id string) ([]harnessRef, error) {
	var out []harnessRef
	hroot := filepath.Join(verifDir, "harness")
	fset := token.NewFileSet()
	err := filepath.Walk(hroot, func(p string, info os.FileInfo, err error) error {
		if err != nil || info.IsDir() || !strings.HasSuffix(p, ".go") {
			return err
		}
		f, err := parser.ParseFile(fset, p, nil, parser.ParseComments)
		if err != nil {
			return err
		}
		rel, _ := filepath.Rel(hroot, filepath.Dir(p))
		for _, d := range f.Decls {
			fd, ok := d.(*ast.FuncDecl)
			if !ok || fd.Recv != nil {
				continue
			}
			m := verifFuncRe.FindStringSubmatch(fd.Name.Name)
			if m == nil || m[1] != id {
				continue
			}
			if fd.Type.Params.NumFields() != 0 || (fd.Type.Results != nil && fd.Type.Results.NumFields() != 0) {
				continue
			}
			hr := harnessRef{dir: rel, fn: fd.Name.Name}
			if fd.Doc != nil && strings.Contains(fd.Doc.Text(), "verif:thorough-only") {
				hr.tier = "thorough"
			}
			if fd.Doc != nil && strings.Contains(fd.Doc.Text(), "verif:replay=model") {
				hr.model = true
			}
			if fd.Doc != nil && strings.Contains(fd.Doc.Text(), "verif:replay=native-then-model") {
				hr.modelFallback = true
			}
			if fd.Doc != nil {
				if m := shardsRe.FindStringSubmatch(fd.Doc.Text()); m != nil {
					hr.shards, _ = strconv.Atoi(m[1])
				}
			}
			if hr.shards > 1 {
				for k := 0; k < hr.shards; k++ {
					h2 := hr
					h2.shard = k
					out = append(out, h2)
				}
				continue
			}
			out = append(out, hr)
		}
		return nil
	})
	sort.Slice(out, func(i, j int) bool {
		if out[i].dir != out[j].dir {
			return out[i].dir < out[j].dir
		}
		if out[i].fn != out[j].fn {
			return out[i].fn < out[j].fn
		}
		return out[i].shard < out[j].shard
	})
	return out, err
}

type replayRec struct {
	Property     string    `json:"property"`
	Harness      string    `json:"harness"`
	PkgDir       string    `json:"pkg_dir"`
	Obligation   string    `json:"obligation"`
	Kind         string    `json:"kind"`
	Msg          string    `json:"msg,omitempty"`
	Finding      string    `json:"finding,omitempty"`
	Vector       []ndValue `json:"vector"`
	Where        string    `json:"where,omitempty"`
	Decisions    []string  `json:"decisions,omitempty"`
	Cmd          string    `json:"cmd"`
	Tier         string    `json:"tier,omitempty"`
	nativeFailed bool
}

var currentTier = "quick"

// makeModelReplay: re-execution of a counterexample in the engine with the
// vector pinned, for harnesses whose environment cannot be injected natively.
func makeModelReplay(ld *Loaded, dirPkg map[string]string, hs []harnessRef) func(rr *replayRec) (bool, string) {
	return func(rr *replayRec) (bool, string) {
		var h harnessRef
		for _, x := range hs {
			if x.fn == rr.Harness {
				h = x
			}
		}
		if !h.model && !(h.modelFallback && rr.nativeFailed) {
			return false, ""
		}
		b := defaultBounds()
		b.WallS = 120
		w := NewWorld(ld.pi, b)
		w.forced = rr.Vector
		if w.forced == nil {
			w.forced = []ndValue{}
		}
		res := w.Explore(Harness{Pkg: dirPkg[h.dir], Func: h.fn}, map[string]bool{})
		for _, f := range res.Failures {
			if f.Obligation == rr.Obligation {
				return true, "MODEL-REPLAY reproduced " + rr.Obligation
			}
		}
		return false, fmt.Sprintf("MODEL-REPLAY did not reproduce %s (%d paths)", rr.Obligation, res.Paths)
	}
}

func cmdCheck(id, tier string) int {
	t0 := time.Now()
	currentTier = tier
	seed := int64(0)
	if s := os.Getenv("VERIF_SEED"); s != "" {
		seed, _ = strconv.ParseInt(s, 10, 64)
	}
	known, err := loadKnown()
	if err != nil {
		fmt.Println("INCONCLUSIVE known_findings.json:", err)
		return 2
	}
	open := map[string]bool{}
	for _, k := range known {
		if k.Status == "open" && k.Property == id {
			open[k.ID] = true
		}
	}
	hs, err := findHarnesses(id)
	if err != nil || len(hs) == 0 {
		fmt.Printf("INCONCLUSIVE no harness for %s: %v\n", id, err)
		return 2
	}
	var sel []harnessRef
	for _, h := range hs {
		if h.tier == "thorough" && tier != "thorough" {
			continue
		}
		sel = append(sel, h)
	}
	hs = sel
	m, err := NewMirror()
	if err != nil {
		fmt.Println("INCONCLUSIVE mirror:", err)
		return 2
	}
	defer m.Remove()
	dirs := map[string]bool{}
	var patterns []string
	for _, h := range hs {
		if !dirs[h.dir] {
			dirs[h.dir] = true
			patterns = append(patterns, "./"+h.dir)
		}
	}
	ld, err := m.LoadPackages(patterns)
	if err != nil {
		fmt.Println("INCONCLUSIVE load:", err)
		return 2
	}
	dirPkg := map[string]string{}
	for _, p := range ld.pkgs {
		for d := range dirs {
			if strings.HasSuffix(p.PkgPath, "/"+d) || p.PkgPath == repoMod+"/"+d || (len(p.GoFiles) > 0 && filepath.Dir(p.GoFiles[0]) == filepath.Join(m.dir, d)) {
				dirPkg[d] = p.PkgPath
			}
		}
	}
	fmt.Fprintf(os.Stderr, "[%s %s] %d harnesses, load %v, ssa %v\n", id, tier, len(hs), ld.load.Round(1e7), ld.build.Round(1e7))

	results := make([]*HarnessResult, len(hs))
	var wg sync.WaitGroup
	par := runtime.NumCPU()
	if v := os.Getenv("GOSYM_PAR"); v != "" {
		par, _ = strconv.Atoi(v)
	}
	sem := make(chan struct{}, par)
	for i, h := range hs {
		wg.Add(1)
		go func(i int, h harnessRef) {
			defer wg.Done()
			sem <- struct{}{}
			defer func() { <-sem }()
			b := defaultBounds()
			b.WallS = 300
			if v := os.Getenv("GOSYM_BUDGET"); v != "" {
				fmt.Sscan(v, &b.WallS)
			}
			if tier == "thorough" {
				b.WallS *= 8
				b.QueryMs = 120_000
				b.MaxSteps *= 10
				b.MaxDecisions *= 4
			}
			w := NewWorld(ld.pi, b)
			w.seed = seed
			w.shard, w.nshards = h.shard, h.shards
			w.findObl = map[string][]string{}
			for fid := range open {
				w.findObl[fid] = known[fid].Obligations
			}
			pkg := dirPkg[h.dir]
			results[i] = w.Explore(Harness{Pkg: pkg, Func: h.fn}, open)
			fmt.Fprintf(os.Stderr, "[%s] %s: paths=%d queries=%d wall=%v\n", id, h.fn, results[i].Paths, results[i].Solver.Queries, results[i].Wall.Round(1e7))
		}(i, h)
	}
	wg.Wait()

	// ------------------------------------------------ verdicts
	rc := 0
	inconclusive := []string{}
	violations := 0
	knownSeen := map[string]bool{}
	knownFail := map[string][]string{}
	replayed := 0
	reproduced := map[string]int{}
	rp := newReplayer(m, id)
	rp.modelReplay = makeModelReplay(ld, dirPkg, hs)
	os.RemoveAll(filepath.Join(verifDir, "replays", id))
	nrep := 0
	for i, res := range results {
		h := hs[i]
		for _, u := range res.Unsupported {
			inconclusive = append(inconclusive, h.fn+": unsupported: "+u)
		}
		for _, u := range res.Unwind {
			inconclusive = append(inconclusive, h.fn+": unwinding: "+u)
		}
		for _, u := range res.Unknown {
			inconclusive = append(inconclusive, h.fn+": solver unknown: "+u)
		}
		for _, u := range res.EngineErr {
			inconclusive = append(inconclusive, h.fn+": engine: "+u)
		}
		for _, u := range res.Solver.Errors {
			inconclusive = append(inconclusive, h.fn+": solver error: "+u)
		}
		for _, f := range res.Failures {
			mk := func(finding string, vec []ndValue) (string, *replayRec) {
				nrep++
				rr := &replayRec{Property: id, Harness: h.fn, PkgDir: h.dir, Obligation: f.Obligation, Kind: f.Kind, Msg: f.Msg,
					Finding: finding, Vector: vec, Where: f.Where, Decisions: f.Decisions, Tier: tier}
				name := fmt.Sprintf("%s-%d.json", sanitize(f.Obligation), nrep)
				path := filepath.Join(verifDir, "replays", id, name)
				rr.Cmd = "/verif/bin/gosym replay " + path
				os.MkdirAll(filepath.Dir(path), 0o755)
				b, _ := json.MarshalIndent(rr, "", " ")
				os.WriteFile(path, b, 0o644)
				return path, rr
			}
			if f.Unexplain && reproduced[f.Obligation] >= 2 {
				// two reproduced counterexamples of this obligation are already reported: further
				// failing paths of the same obligation are written out but not replayed again
				path, _ := mk("", f.Vector)
				fmt.Printf("  (also failing, not replayed: %s)\n", path)
			} else if f.Unexplain {
				path, rr := mk("", f.Vector)
				ok, out := rp.run(rr, path)
				if ok {
					reproduced[f.Obligation]++
				}
				replayed++
				if ok {
					fmt.Printf("VIOLATION property=%s replay=%s\n", id, path)
					fmt.Printf("  obligation %s (%s) %s\n", f.Obligation, f.Kind, f.Msg)
					violations++
					rc = 1
				} else {
					inconclusive = append(inconclusive, fmt.Sprintf("%s: counterexample for %s did not reproduce natively (%s): %s", h.fn, f.Obligation, path, lastLines(out, 6)))
				}
			}
			for _, fid := range f.Findings {
				if knownSeen[fid] {
					continue
				}
				path, rr := mk(fid, f.FindVecs[fid])
				ok, out := rp.run(rr, path)
				replayed++
				if ok {
					knownSeen[fid] = true
					fmt.Printf("KNOWN-FINDING: property=%s %s %s (replay=%s)\n", id, fid, known[fid].What, path)
				} else {
					knownFail[fid] = append(knownFail[fid], fmt.Sprintf("%s: known finding %s did not reproduce natively (%s): %s", h.fn, fid, path, lastLines(out, 6)))
				}
			}
		}
	}
	for fid, msgs := range knownFail {
		if !knownSeen[fid] {
			inconclusive = append(inconclusive, msgs[0])
		}
	}
	// vacuity: every Reach marker named in a harness source must be witnessed
	missing := checkVacuity(hs, results)
	mustReach := findMustReach(hs)
	complete := len(inconclusive) == 0
	for _, mname := range missing {
		parts := strings.SplitN(mname, ":", 2)
		if fid, isMust := mustReach[parts[1]]; isMust {
			// an existential obligation: some input must reach the marker.  Exhaustive
			// exploration without a witness = the marker is unreachable within the bound.
			if !complete {
				inconclusive = append(inconclusive, "must-reach marker not witnessed, but the exploration is incomplete: "+mname)
				continue
			}
			var h harnessRef
			for _, x := range hs {
				if x.fn == parts[0] {
					h = x
				}
			}
			nrep++
			rr := &replayRec{Property: id, Harness: h.fn, PkgDir: h.dir, Obligation: parts[1], Kind: "unreachable",
				Msg: "no input within the bounds reaches this marker (solver: every path that could is infeasible); native confirmation by random sampling", Finding: fid}
			path := filepath.Join(verifDir, "replays", id, fmt.Sprintf("%s-%d.json", sanitize(parts[1]), nrep))
			rr.Cmd = "/verif/bin/gosym replay " + path
			os.MkdirAll(filepath.Dir(path), 0o755)
			b, _ := json.MarshalIndent(rr, "", " ")
			os.WriteFile(path, b, 0o644)
			ok, out := rp.run(rr, path)
			replayed++
			switch {
			case !ok:
				inconclusive = append(inconclusive, fmt.Sprintf("must-reach marker %s: native sampling contradicts the solver (%s): %s", mname, path, lastLines(out, 4)))
			case fid != "" && open[fid]:
				if !knownSeen[fid] {
					knownSeen[fid] = true
					fmt.Printf("KNOWN-FINDING: property=%s %s %s (replay=%s)\n", id, fid, known[fid].What, path)
				}
			default:
				fmt.Printf("VIOLATION property=%s replay=%s\n", id, path)
				fmt.Printf("  obligation %s (must be reachable) is unreachable\n", parts[1])
				violations++
				rc = 1
			}
			continue
		}
		inconclusive = append(inconclusive, "vacuous: Reach marker never witnessed: "+mname)
	}
	writeEvidence(id, tier, seed, hs, results, ld, violations, knownSeen, replayed, inconclusive, time.Since(t0))
	if len(inconclusive) > 0 {
		for _, s := range inconclusive {
			fmt.Printf("INCONCLUSIVE property=%s %s\n", id, s)
		}
		if rc == 0 {
			rc = 2
		}
	}
	if rc == 0 {
		fmt.Printf("OK property=%s tier=%s harnesses=%d wall=%.1fs\n", id, tier, len(hs), time.Since(t0).Seconds())
	}
	return rc
}

var mustReachRe = regexp.MustCompile(`verif:must-reach\s+(\S+)(?:\s+finding=(\S+))?`)

// findMustReach: marker -> finding id ("" if none) from `// verif:must-reach M finding=F` comments.
func findMustReach(hs []harnessRef) map[string]string {
	out := map[string]string{}
	seen := map[string]bool{}
	for _, h := range hs {
		files, _ := filepath.Glob(filepath.Join(verifDir, "harness", h.dir, "*.go"))
		for _, p := range files {
			if seen[p] {
				continue
			}
			seen[p] = true
			src, _ := os.ReadFile(p)
			for _, m := range mustReachRe.FindAllStringSubmatch(string(src), -1) {
				out[m[1]] = m[2]
			}
		}
	}
	return out
}

func lastLines(s string, n int) string {
	ls := strings.Split(strings.TrimSpace(s), "\n")
	if len(ls) > n {
		ls = ls[len(ls)-n:]
	}
	return strings.Join(ls, " | ")
}

var reachRe = regexp.MustCompile(`verifnd\.Reach\("([^"]+)"\)`)

// checkVacuity: every Reach("…") literal in the selected harness functions'
// files, that belongs to the property, must have been witnessed.
func checkVacuity(hs []harnessRef, results []*HarnessResult) []string {
	witnessed := map[string]bool{}
	for _, r := range results {
		for n := range r.Reached {
			witnessed[n] = true
		}
	}
	var missing []string
	seenFile := map[string]bool{}
	fset := token.NewFileSet()
	want := map[string]bool{}
	for _, h := range hs {
		want[h.fn] = true
	}
	for _, h := range hs {
		dir := filepath.Join(verifDir, "harness", h.dir)
		files, _ := filepath.Glob(filepath.Join(dir, "*.go"))
		for _, p := range files {
			if seenFile[p] {
				continue
			}
			seenFile[p] = true
			f, err := parser.ParseFile(fset, p, nil, 0)
			if err != nil {
				continue
			}
			src, _ := os.ReadFile(p)
			for _, d := range f.Decls {
				fd, ok := d.(*ast.FuncDecl)
				if !ok || fd.Recv != nil || !want[fd.Name.Name] {
					continue
				}
				body := string(src[fset.Position(fd.Pos()).Offset:fset.Position(fd.End()).Offset])
				for _, m := range reachRe.FindAllStringSubmatch(body, -1) {
					if strings.Contains(body, "verif:optional-reach "+m[1]) {
						continue
					}
					if !witnessed[m[1]] {
						missing = append(missing, fd.Name.Name+":"+m[1])
					}
				}
			}
		}
	}
	sort.Strings(missing)
	return missing
}

func writeEvidence(id, tier string, seed int64, hs []harnessRef, results []*HarnessResult, ld *Loaded,
	violations int, known map[string]bool, replayed int, inconclusive []string, wall time.Duration) {
	states, trans := 0, 0
	oblig, disch := 0, 0
	fns := map[string]bool{}
	models := map[string]bool{}
	cuts := map[string]int{}
	chooses := map[string]int{}
	var q SolverStats
	var samples []interface{}
	var harnessRows []map[string]interface{}
	obNames := map[string]bool{}
	witnesses := 0
	for i, r := range results {
		states += r.Paths
		trans += r.Decisions
		for n, c := range r.Obligations {
			oblig += c
			disch += r.Discharged[n]
			obNames[n] = true
		}
		for f := range r.FnsEncoded {
			fns[f] = true
		}
		for f := range r.Models {
			if !strings.HasPrefix(f, verifndPath) {
				models[f] = true
			}
		}
		for c, n := range r.Cuts {
			cuts[c] += n
		}
		for c, n := range r.Chooses {
			if n > chooses[c] {
				chooses[c] = n
			}
		}
		q.Queries += r.Solver.Queries
		q.Sat += r.Solver.Sat
		q.Unsat += r.Solver.Unsat
		q.Unknown += r.Solver.Unknown
		q.Time += r.Solver.Time
		witnesses += len(r.Reached)
		// one reach witness per harness as a sample
		var names []string
		for n := range r.Reached {
			names = append(names, n)
		}
		sort.Strings(names)
		if len(names) > 0 && len(samples) < 12 {
			samples = append(samples, map[string]interface{}{"harness": hs[i].fn, "reach": names[len(names)-1], "model": clipVec(r.Reached[names[len(names)-1]])})
		}
		harnessRows = append(harnessRows, map[string]interface{}{
			"harness": hs[i].fn, "package": hs[i].dir, "paths": r.Paths, "decisions": r.Decisions, "instructions": r.Steps,
			"infeasible_paths": r.Infeasible, "queries": r.Solver.Queries, "solver_s": round3(r.Solver.Time.Seconds()), "wall_s": round3(r.Wall.Seconds()),
			"failures": len(r.Failures), "reach_witnessed": names,
		})
	}
	if len(samples) == 0 {
		samples = append(samples, map[string]interface{}{"note": "no reach witness recorded"})
	}
	if states == 0 {
		states = 1
	}
	if trans == 0 {
		trans = 1
	}
	keys := func(m map[string]bool) []string {
		var out []string
		for k := range m {
			out = append(out, k)
		}
		sort.Strings(out)
		return out
	}
	var knownList []string
	for k := range known {
		knownList = append(knownList, k)
	}
	sort.Strings(knownList)
	ev := map[string]interface{}{
		"property_id": id,
		"tier":        tier,
		"seed":        seed,
		"level":       "model_checking",
		"wall_s":      round3(wall.Seconds()),
		"violations":  violations,
		"coverage": map[string]interface{}{
			"states":                        states,
			"transitions":                   trans,
			"traces_validated_against_impl": replayed,
			"samples":                       samples,
			"explanation":                   "bounded symbolic execution of the real go/ssa of /repo's working tree; states = completed symbolic paths (each covers every input satisfying its path condition), transitions = forked decisions; every obligation is an SMT query (unsat = holds for all inputs of that path within the bound)",
			"functions_encoded":             keys(fns),
			"models_used":                   keys(models),
			"obligations":                   oblig,
			"discharged":                    disch,
			"obligation_names":              keys(obNames),
			"queries":                       map[string]int{"total": q.Queries, "sat": q.Sat, "unsat": q.Unsat, "unknown": q.Unknown},
			"solver_s":                      round3(q.Time.Seconds()),
			"solver":                        solverVersion() + " (one incremental process per harness world, -in, push/pop)",
			"cuts":                          cuts,
			"enumerated_dimensions":         chooses,
			"vacuity_witnesses":             witnesses,
			"harnesses":                     harnessRows,
			"known_findings_observed":       knownList,
			"inconclusive":                  inconclusive,
			"load_s":                        round3(ld.load.Seconds()),
			"ssa_build_s":                   round3(ld.build.Seconds()),
			"exhaustive":                    false,
			"engine_bounds":                 engineBounds(tier),
		},
		"assumptions": []string{
			"library models listed under coverage.models_used return arbitrary values constrained only by their documented contract (trusted base)",
			"bounds are those written in the harness functions (enumerated_dimensions, cuts) and the engine limits (instructions/decisions per path); nothing is claimed outside them",
			"counterexamples are replayed against the natively compiled code before being reported",
		},
	}
	if id == "SELF" {
		return // the engine's self-checks are not a property: no evidence file
	}
	os.MkdirAll(filepath.Join(verifDir, "evidence"), 0o755)
	b, _ := json.MarshalIndent(ev, "", " ")
	os.WriteFile(filepath.Join(verifDir, "evidence", id+".json"), b, 0o644)
}

func round3(f float64) float64 { return float64(int64(f*1000)) / 1000 }

func clipVec(v []ndValue) []ndValue {
	out := make([]ndValue, 0, len(v))
	for _, x := range v {
		if len(x.Hex) > 96 {
			x.Hex = x.Hex[:96] + "…"
		}
		out = append(out, x)
		if len(out) >= 24 {
			break
		}
	}
	return out
}

// solverVersion asks the solver binary in use for its version string.
func solverVersion() string {
	bin := envOr("GOSYM_SOLVER", "z3-new")
	out, err := exec.Command(bin, "--version").Output()
	if err != nil {
		return bin
	}
	return bin + ": " + strings.TrimSpace(string(out))
}

// engineBounds reports the limits every harness world of this run was explored under (a path
// or a world that hits one is reported as inconclusive, never as held).
func engineBounds(tier string) map[string]interface{} {
	b := defaultBounds()
	b.WallS = 300
	if v := os.Getenv("GOSYM_BUDGET"); v != "" {
		fmt.Sscan(v, &b.WallS)
	}
	if tier == "thorough" {
		b.WallS *= 8
		b.QueryMs = 120_000
		b.MaxSteps *= 10
		b.MaxDecisions *= 4
	}
	return map[string]interface{}{
		"instructions_per_path":    b.MaxSteps,
		"decisions_per_path":       b.MaxDecisions,
		"call_depth":               b.MaxDepth,
		"solver_query_timeout_ms":  b.QueryMs,
		"wall_s_per_harness_world": b.WallS,
		"bounds_in_harnesses":      "see enumerated_dimensions (every Choose with its arity), cuts (named assumptions with the number of paths they were applied on) and the harness doc comments",
		"outside_the_bounds_means": "nothing is claimed; a world that exhausts a limit makes the run INCONCLUSIVE (exit 2)",
	}
}

package main

// math/big.Int as fixed-width bit-vectors.  A big.Int is {neg bool, abs nat};
// the model keeps the magnitude as one bigW-bit term inside abs (a 1-element
// slice holding a BigVal), so that struct copies behave as in Go (the slice
// header is copied).  Every result is checked to fit (overflow = unsupported).

import (
	"fmt"
	"go/types"
	"math/big"

	"golang.org/x/tools/go/ssa"
)

const bigW = 136

type BigVal struct{ t *Term }

func (w *World) bigGet(fr *frame, p *Value) (mag *Term, neg *Term) {
	if p == nil {
		w.rtPanic(fr, "invalid memory address or nil pointer dereference")
	}
	s := (*p).(Struct)
	neg = s[0].(*Term)
	abs, _ := s[1].([]Value)
	if len(abs) == 0 {
		return w.tt.zero(bigW), neg
	}
	bv, ok := abs[0].(BigVal)
	if !ok {
		w.unsupported(fr, "big.Int with a raw word slice (not produced by the model)")
	}
	return bv.t, neg
}

func (w *World) bigSet(p *Value, mag, neg *Term) {
	s := (*p).(Struct)
	// canonical zero: not negative
	isz := w.tt.Eq(mag, w.tt.zero(bigW))
	neg = w.tt.And(neg, w.tt.Not(isz))
	w.storeLeaf(&s[0], neg)
	w.storeLeaf(&s[1], []Value{BigVal{mag}})
}

func (w *World) bigNew(fr *frame, t types.Type, mag, neg *Term) *Value {
	cell := new(Value)
	*cell = w.zero(deref(t))
	w.bigSet(cell, mag, neg)
	return cell
}

// signed view in bigW+1 bits
func (w *World) bigSigned(mag, neg *Term) *Term {
	m := w.tt.ZExt(mag, bigW+1)
	return w.tt.Ite(neg, w.tt.Un(OpNeg, m), m)
}

func (w *World) bigFromSigned(fr *frame, s *Term) (*Term, *Term) {
	neg := w.tt.Cmp(OpSLt, s, w.tt.zero(bigW+1))
	m := w.tt.Ite(neg, w.tt.Un(OpNeg, s), s)
	// must fit in bigW bits
	top := w.tt.Extract(m, bigW, bigW)
	w.bigFit(fr, w.tt.Eq(top, w.tt.BV(1, 0)))
	return w.tt.Extract(m, bigW-1, 0), neg
}

func (w *World) bigFit(fr *frame, ok *Term) {
	if ok == w.tt.T {
		return
	}
	if w.decideBool(w.tt.Not(ok), "big.Int overflow of the model width") {
		w.unsupported(fr, fmt.Sprintf("math/big value exceeds the %d-bit model", bigW))
	}
}

func (w *World) bigConst(v *big.Int) (*Term, *Term) {
	neg := v.Sign() < 0
	return w.tt.BVBig(bigW, new(big.Int).Abs(v)), w.tt.Bool(neg)
}

// byteLen: minimal number of bytes of the magnitude, as a term (64-bit).
func (w *World) bigByteLen(mag *Term) *Term {
	res := w.tt.BV(64, uint64(bigW/8))
	for l := bigW/8 - 1; l >= 0; l-- {
		// mag < 2^(8l)  <=> top bits zero
		var small *Term
		if l == 0 {
			small = w.tt.Eq(mag, w.tt.zero(bigW))
		} else {
			small = w.tt.Eq(w.tt.Extract(mag, bigW-1, 8*l), w.tt.zero(bigW-8*l))
		}
		res = w.tt.Ite(small, w.tt.BV(64, uint64(l)), res)
	}
	return res
}

func (w *World) bigBitLen(mag *Term) *Term {
	res := w.tt.BV(64, uint64(bigW))
	for l := bigW - 1; l >= 0; l-- {
		var small *Term
		if l == 0 {
			small = w.tt.Eq(mag, w.tt.zero(bigW))
		} else {
			small = w.tt.Eq(w.tt.Extract(mag, bigW-1, l), w.tt.zero(bigW-l))
		}
		res = w.tt.Ite(small, w.tt.BV(64, uint64(l)), res)
	}
	return res
}

func init() {
	type bi = intrinsic
	recv := func(args []Value) *Value { return args[0].(*Value) }
	rt := func(fn *ssa.Function) types.Type { return fn.Signature.Results().At(0).Type() }

	reg("math/big.NewInt", func(w *World, t *Thread, fr *frame, fn *ssa.Function, args []Value) Value {
		x := args[0].(*Term)
		neg := w.tt.Cmp(OpSLt, x, w.tt.zero(64))
		mag := w.tt.Ite(neg, w.tt.Un(OpNeg, x), x)
		return w.bigNew(fr, rt(fn), w.tt.ZExt(mag, bigW), neg)
	})
	reg("(*math/big.Int).Set", func(w *World, t *Thread, fr *frame, fn *ssa.Function, args []Value) Value {
		m, n := w.bigGet(fr, args[1].(*Value))
		w.bigSet(recv(args), m, n)
		return recv(args)
	})
	reg("(*math/big.Int).SetInt64", func(w *World, t *Thread, fr *frame, fn *ssa.Function, args []Value) Value {
		x := args[1].(*Term)
		neg := w.tt.Cmp(OpSLt, x, w.tt.zero(64))
		mag := w.tt.Ite(neg, w.tt.Un(OpNeg, x), x)
		w.bigSet(recv(args), w.tt.ZExt(mag, bigW), neg)
		return recv(args)
	})
	reg("(*math/big.Int).SetUint64", func(w *World, t *Thread, fr *frame, fn *ssa.Function, args []Value) Value {
		w.bigSet(recv(args), w.tt.ZExt(args[1].(*Term), bigW), w.tt.F)
		return recv(args)
	})
	reg("(*math/big.Int).SetBytes", func(w *World, t *Thread, fr *frame, fn *ssa.Function, args []Value) Value {
		bs := w.bytesOf(args[1])
		// leading bytes beyond the model width must be zero
		for len(bs) > bigW/8 {
			w.bigFit(fr, w.tt.Eq(bs[0], w.tt.BV(8, 0)))
			bs = bs[1:]
		}
		mag := w.tt.zero(bigW)
		if len(bs) > 0 {
			acc := bs[0]
			for _, b := range bs[1:] {
				acc = w.tt.Concat(acc, b)
			}
			mag = w.tt.ZExt(acc, bigW)
		}
		w.bigSet(recv(args), mag, w.tt.F)
		return recv(args)
	})
	reg("(*math/big.Int).Bytes", func(w *World, t *Thread, fr *frame, fn *ssa.Function, args []Value) Value {
		mag, _ := w.bigGet(fr, recv(args))
		n := int(w.concretize(w.bigByteLen(mag), "big.Int.Bytes length"))
		out := make([]Value, n)
		for i := 0; i < n; i++ {
			lo := 8 * (n - 1 - i)
			out[i] = w.tt.Extract(mag, lo+7, lo)
		}
		return out
	})
	reg("(*math/big.Int).FillBytes", func(w *World, t *Thread, fr *frame, fn *ssa.Function, args []Value) Value {
		mag, _ := w.bigGet(fr, recv(args))
		buf := args[1].([]Value)
		n := len(buf)
		// panics if the value does not fit
		if 8*n < bigW {
			fits := w.tt.Eq(w.tt.Extract(mag, bigW-1, 8*n), w.tt.zero(bigW-8*n))
			if !w.decideBool(fits, "FillBytes fits") {
				panic(goPanic{v: Iface{t: types.Typ[types.String], v: Str{s: "math/big: buffer too small to fit value"}}, where: w.where(fr)})
			}
		}
		for i := 0; i < n; i++ {
			lo := 8 * (n - 1 - i)
			if lo+7 < bigW {
				w.store(&buf[i], w.tt.Extract(mag, lo+7, lo))
			} else {
				w.store(&buf[i], w.tt.BV(8, 0))
			}
		}
		return buf
	})
	arith := func(op Op) bi {
		return func(w *World, t *Thread, fr *frame, fn *ssa.Function, args []Value) Value {
			xm, xn := w.bigGet(fr, args[1].(*Value))
			ym, yn := w.bigGet(fr, args[2].(*Value))
			if xn == w.tt.F && yn == w.tt.F && op == OpAdd {
				s := w.tt.Bin(OpAdd, w.tt.ZExt(xm, bigW+1), w.tt.ZExt(ym, bigW+1))
				w.bigFit(fr, w.tt.Eq(w.tt.Extract(s, bigW, bigW), w.tt.BV(1, 0)))
				w.bigSet(recv(args), w.tt.Extract(s, bigW-1, 0), w.tt.F)
				return recv(args)
			}
			// bigW+2 bits so that the sum of two (bigW+1)-bit signed values fits
			xs := w.tt.SExt(w.bigSigned(xm, xn), bigW+2)
			ys := w.tt.SExt(w.bigSigned(ym, yn), bigW+2)
			r := w.tt.Bin(op, xs, ys)
			// must fit in bigW+1 signed
			w.bigFit(fr, w.tt.Eq(w.tt.SExt(w.tt.Extract(r, bigW, 0), bigW+2), r))
			m, n := w.bigFromSigned(fr, w.tt.Extract(r, bigW, 0))
			w.bigSet(recv(args), m, n)
			return recv(args)
		}
	}
	reg("(*math/big.Int).Add", arith(OpAdd))
	reg("(*math/big.Int).Sub", arith(OpSub))
	reg("(*math/big.Int).Mul", func(w *World, t *Thread, fr *frame, fn *ssa.Function, args []Value) Value {
		xm, xn := w.bigGet(fr, args[1].(*Value))
		ym, yn := w.bigGet(fr, args[2].(*Value))
		p := w.tt.Bin(OpMul, w.tt.ZExt(xm, 2*bigW), w.tt.ZExt(ym, 2*bigW))
		w.bigFit(fr, w.tt.Eq(w.tt.Extract(p, 2*bigW-1, bigW), w.tt.zero(bigW)))
		neg := w.tt.Not(w.tt.Eq(xn, yn))
		w.bigSet(recv(args), w.tt.Extract(p, bigW-1, 0), neg)
		return recv(args)
	})
	reg("(*math/big.Int).Exp", func(w *World, t *Thread, fr *frame, fn *ssa.Function, args []Value) Value {
		// supported: m == nil, base 2 (or both concrete)
		xm, xn := w.bigGet(fr, args[1].(*Value))
		ym, yn := w.bigGet(fr, args[2].(*Value))
		if mp := args[3].(*Value); mp != nil {
			mm, _ := w.bigGet(fr, mp)
			if !isZero(mm) {
				w.unsupported(fr, "big.Int.Exp with modulus")
			}
		}
		if xn != w.tt.F {
			w.unsupported(fr, "big.Int.Exp with negative/symbolic-sign base")
		}
		if xm.op == OpConst && cBig(xm).IsUint64() {
			if cBig(xm).Uint64() == 2 {
				// y <= 0 -> 1 (Go: x**y = 1 for y <= 0)
				nonpos := w.tt.Or(yn, w.tt.Eq(ym, w.tt.zero(bigW)))
				sh := w.tt.Bin(OpShl, w.tt.BVBig(bigW, big.NewInt(1)), ym)
				// exponent must be < bigW
				w.bigFit(fr, w.tt.Or(nonpos, w.tt.Cmp(OpULt, ym, w.tt.BVBig(bigW, big.NewInt(bigW)))))
				w.bigSet(recv(args), w.tt.Ite(nonpos, w.tt.BVBig(bigW, big.NewInt(1)), sh), w.tt.F)
				return recv(args)
			}
		}
		if xm.op == OpConst && ym.op == OpConst && yn.IsConst() {
			x := cBig(xm)
			y := new(big.Int).Set(cBig(ym))
			if yn == w.tt.T {
				y.Neg(y)
			}
			r := new(big.Int).Exp(x, y, nil)
			if r.BitLen() > bigW {
				w.unsupported(fr, "big.Int.Exp result exceeds the model width")
			}
			m, n := w.bigConst(r)
			w.bigSet(recv(args), m, n)
			return recv(args)
		}
		w.unsupported(fr, "big.Int.Exp with symbolic base")
		return nil
	})
	reg("(*math/big.Int).Cmp", func(w *World, t *Thread, fr *frame, fn *ssa.Function, args []Value) Value {
		xm, xn := w.bigGet(fr, recv(args))
		ym, yn := w.bigGet(fr, args[1].(*Value))
		xs, ys := w.bigSigned(xm, xn), w.bigSigned(ym, yn)
		lt := w.tt.Cmp(OpSLt, xs, ys)
		eq := w.tt.Eq(xs, ys)
		return w.tt.Ite(lt, w.tt.BV(64, ^uint64(0)), w.tt.Ite(eq, w.tt.BV(64, 0), w.tt.BV(64, 1)))
	})
	reg("(*math/big.Int).CmpAbs", func(w *World, t *Thread, fr *frame, fn *ssa.Function, args []Value) Value {
		xm, _ := w.bigGet(fr, recv(args))
		ym, _ := w.bigGet(fr, args[1].(*Value))
		lt := w.tt.Cmp(OpULt, xm, ym)
		eq := w.tt.Eq(xm, ym)
		return w.tt.Ite(lt, w.tt.BV(64, ^uint64(0)), w.tt.Ite(eq, w.tt.BV(64, 0), w.tt.BV(64, 1)))
	})
	reg("(*math/big.Int).Sign", func(w *World, t *Thread, fr *frame, fn *ssa.Function, args []Value) Value {
		m, n := w.bigGet(fr, recv(args))
		isz := w.tt.Eq(m, w.tt.zero(bigW))
		return w.tt.Ite(isz, w.tt.BV(64, 0), w.tt.Ite(n, w.tt.BV(64, ^uint64(0)), w.tt.BV(64, 1)))
	})
	reg("(*math/big.Int).BitLen", func(w *World, t *Thread, fr *frame, fn *ssa.Function, args []Value) Value {
		m, _ := w.bigGet(fr, recv(args))
		bl := w.bigBitLen(m)
		if _, ok := bl.Const64(); ok {
			return bl
		}
		// callers use the bit length as a size/shift: fork over its feasible values
		return w.tt.BV(64, w.concretize(bl, "big.Int.BitLen"))
	})
	reg("(*math/big.Int).Int64", func(w *World, t *Thread, fr *frame, fn *ssa.Function, args []Value) Value {
		m, n := w.bigGet(fr, recv(args))
		lo := w.tt.Extract(m, 63, 0)
		return w.tt.Ite(n, w.tt.Un(OpNeg, lo), lo)
	})
	reg("(*math/big.Int).Uint64", func(w *World, t *Thread, fr *frame, fn *ssa.Function, args []Value) Value {
		m, _ := w.bigGet(fr, recv(args))
		return w.tt.Extract(m, 63, 0)
	})
	reg("(*math/big.Int).IsInt64", func(w *World, t *Thread, fr *frame, fn *ssa.Function, args []Value) Value {
		m, n := w.bigGet(fr, recv(args))
		s := w.bigSigned(m, n)
		return w.tt.Eq(w.tt.SExt(w.tt.Extract(s, 63, 0), bigW+1), s)
	})
	reg("(*math/big.Int).IsUint64", func(w *World, t *Thread, fr *frame, fn *ssa.Function, args []Value) Value {
		m, n := w.bigGet(fr, recv(args))
		return w.tt.And(w.tt.Not(n), w.tt.Eq(w.tt.Extract(m, bigW-1, 64), w.tt.zero(bigW-64)))
	})
	reg("(*math/big.Int).Mod", func(w *World, t *Thread, fr *frame, fn *ssa.Function, args []Value) Value {
		xm, xn := w.bigGet(fr, args[1].(*Value))
		ym, _ := w.bigGet(fr, args[2].(*Value))
		if w.decideBool(w.tt.Eq(ym, w.tt.zero(bigW)), "big.Mod by zero") {
			panic(goPanic{v: Iface{t: types.Typ[types.String], v: Str{s: "division by zero"}}, where: w.where(fr)})
		}
		if xn != w.tt.F {
			w.unsupported(fr, "big.Int.Mod of a possibly negative value")
		}
		if _, abs := w.ext["absmod"]; abs {
			if !xm.IsConst() {
				// sound over-approximation for safety obligations: r = f(x, m) with r < m and (x < m -> r = x)
				r := w.tt.UF("bigmod", bigW, xm, ym)
				w.assumeNoCheck(w.tt.Cmp(OpULt, r, ym))
				w.assumeNoCheck(w.tt.Implies(w.tt.Cmp(OpULt, xm, ym), w.tt.Eq(r, xm)))
				w.bigSet(recv(args), r, w.tt.F)
				return recv(args)
			}
		}
		w.bigSet(recv(args), w.tt.Bin(OpURem, xm, ym), w.tt.F)
		return recv(args)
	})
	reg("(*math/big.Int).And", func(w *World, t *Thread, fr *frame, fn *ssa.Function, args []Value) Value {
		xm, xn := w.bigGet(fr, args[1].(*Value))
		ym, yn := w.bigGet(fr, args[2].(*Value))
		if xn != w.tt.F || yn != w.tt.F {
			w.unsupported(fr, "big.Int.And of possibly negative values")
		}
		w.bigSet(recv(args), w.tt.Bin(OpAnd, xm, ym), w.tt.F)
		return recv(args)
	})
	shift := func(op Op) bi {
		return func(w *World, t *Thread, fr *frame, fn *ssa.Function, args []Value) Value {
			xm, xn := w.bigGet(fr, args[1].(*Value))
			n := w.tt.ZExt(args[2].(*Term), bigW)
			if xn != w.tt.F {
				w.unsupported(fr, "big.Int shift of a possibly negative value")
			}
			r := w.tt.Bin(op, xm, n)
			if op == OpShl {
				// no bits lost
				w.bigFit(fr, w.tt.Eq(w.tt.Bin(OpLShr, r, n), xm))
			}
			w.bigSet(recv(args), r, w.tt.F)
			return recv(args)
		}
	}
	reg("(*math/big.Int).Rsh", shift(OpLShr))
	reg("(*math/big.Int).Lsh", shift(OpShl))
	reg("(*math/big.Int).String", func(w *World, t *Thread, fr *frame, fn *ssa.Function, args []Value) Value {
		p := recv(args)
		if p == nil {
			return Str{s: "<nil>"}
		}
		m, n := w.bigGet(fr, p)
		if m.op == OpConst && n.IsConst() {
			v := new(big.Int).Set(cBig(m))
			if n == w.tt.T {
				v.Neg(v)
			}
			return Str{s: v.String()}
		}
		return Str{opq: true}
	})
}

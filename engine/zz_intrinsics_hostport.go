package main

// Structured symbolic host / host:port strings (C06): the textual *shape* is
// concrete (which form, brackets, zone, port text), the address bytes are
// symbolic.  The stdlib functions that look inside (net.ParseIP,
// SplitHostPort, ResolveIPAddr, JoinHostPort) follow their documented contract
// on these shapes; each contract line was checked against the real functions on
// concrete instances (see DESIGN §C06) and every counterexample is replayed
// natively with the real functions.

import (
	"go/types"
	"net"
	"regexp"

	"golang.org/x/tools/go/ssa"
)

type HostTok struct {
	ip         []*Term // 4 or 16 bytes; nil = not an address literal
	mappedText bool    // printed as ::ffff:a.b.c.d (ip has 4 bytes)
	zone       string
	name       string // when ip == nil (may be empty)
	full       bool   // host:port form
	bracket    bool
	hasPort    bool
	port       string
}

func (w *World) hostTok(s Str) *HostTok {
	if s.tok != nil && s.tok.kind == "host" {
		return s.tok.host
	}
	if s.tok != nil && s.tok.kind == "ip" {
		return &HostTok{ip: s.tok.ip}
	}
	return nil
}

func mkHostStr(h *HostTok) Str { return Str{tok: &StrTok{kind: "host", host: h}} }

// colonForm: the textual form of the address contains ':' (needs brackets).
func (w *World) colonForm(h *HostTok) *Term {
	if h.ip == nil {
		return w.tt.F
	}
	if h.mappedText {
		return w.tt.T
	}
	if len(h.ip) == 4 {
		return w.tt.F
	}
	// 16 bytes: printed dotted iff v4-mapped
	conj := []*Term{w.tt.Eq(h.ip[10], w.tt.BV(8, 0xff)), w.tt.Eq(h.ip[11], w.tt.BV(8, 0xff))}
	for i := 0; i < 10; i++ {
		conj = append(conj, w.tt.Eq(h.ip[i], w.tt.BV(8, 0)))
	}
	return w.tt.Not(w.tt.And(conj...))
}

func (w *World) hostEq(a, b *HostTok) *Term {
	if (a.ip == nil) != (b.ip == nil) || a.zone != b.zone || a.full != b.full || a.bracket != b.bracket || a.hasPort != b.hasPort || a.port != b.port || a.mappedText != b.mappedText {
		return w.tt.F
	}
	if a.ip == nil {
		return w.tt.Bool(a.name == b.name)
	}
	x, y := w.to16(a.ip), w.to16(b.ip)
	conj := make([]*Term, 16)
	for i := range conj {
		conj[i] = w.tt.Eq(x[i], y[i])
	}
	return w.tt.And(conj...)
}

// resolveName: the scripted resolver answers arbitrarily, differently on every lookup.
func (w *World) resolveName(name string) ([]*Term, bool) {
	n := 0
	if v, ok := w.ext["resolves"]; ok {
		n = v.(int)
	}
	w.ext["resolves"] = n + 1
	if w.decideBool(w.freshND("resolver-fails", "env-bool", 0), "resolver") {
		return nil, false
	}
	ans := make([]*Term, 4)
	for i := range ans {
		ans[i] = w.tt.Fresh("resolved", 8)
	}
	w.logND("resolver-answer", "env-bytes", ans, 0)
	if n == 0 {
		w.ext["firstresolved"] = w.to16(ans)
	}
	return w.to16(ans), true
}

func (w *World) mkIPAddr(fr *frame, t types.Type, ip []*Term, zone string) *Value {
	cell := new(Value)
	*cell = w.zero(deref(t))
	s := (*cell).(Struct)
	if ip != nil {
		s[0] = w.byteSlice(ip)
	}
	s[1] = Str{s: zone}
	return cell
}

func init() {
	reg("verifnd.HostPort", func(w *World, t *Thread, fr *frame, fn *ssa.Function, args []Value) Value {
		h := &HostTok{full: true}
		if ipb := args[0].([]Value); len(ipb) > 0 {
			h.ip = w.bytesOf(ipb)
		}
		h.mappedText = args[1].(*Term) == w.tt.T
		h.zone = w.concStr(fr, args[2], "zone")
		h.name = w.concStr(fr, args[3], "name")
		h.bracket = args[4].(*Term) == w.tt.T
		h.hasPort = args[5].(*Term) == w.tt.T
		h.port = w.concStr(fr, args[6], "port")
		return mkHostStr(h)
	})
	// SplitResult(s) -> (ip, zone, port, ok): s is "literal-address:port"
	reg("verifnd.SplitResult", func(w *World, t *Thread, fr *frame, fn *ssa.Function, args []Value) Value {
		s := args[0].(Str)
		if h := w.hostTok(s); h != nil {
			if !h.full || !h.hasPort || h.ip == nil {
				return Tuple{[]Value(nil), Str{}, Str{}, w.tt.F}
			}
			return Tuple{w.byteSlice(w.to16(h.ip)), Str{s: h.zone}, Str{s: h.port}, w.tt.T}
		}
		cs := w.concStr(fr, s, "SplitResult")
		host, port, err := net.SplitHostPort(cs)
		if err != nil {
			return Tuple{[]Value(nil), Str{}, Str{}, w.tt.F}
		}
		zone := ""
		for i := 0; i < len(host); i++ {
			if host[i] == '%' {
				host, zone = host[:i], host[i+1:]
				break
			}
		}
		ip := net.ParseIP(host)
		if ip == nil {
			return Tuple{[]Value(nil), Str{}, Str{}, w.tt.F}
		}
		return Tuple{w.constBytes(ip.To16()), Str{s: zone}, Str{s: port}, w.tt.T}
	})
	reg("verifnd.ResolveCount", func(w *World, t *Thread, fr *frame, fn *ssa.Function, args []Value) Value {
		n := 0
		if v, ok := w.ext["resolves"]; ok {
			n = v.(int)
		}
		return w.tt.BV(64, uint64(n))
	})
	reg("verifnd.LastResolved", func(w *World, t *Thread, fr *frame, fn *ssa.Function, args []Value) Value {
		if v, ok := w.ext["firstresolved"]; ok {
			return w.byteSlice(v.([]*Term))
		}
		return []Value(nil)
	})

	oldParseIP := intrinsics["net.ParseIP"]
	reg("net.ParseIP", func(w *World, t *Thread, fr *frame, fn *ssa.Function, args []Value) Value {
		s := args[0].(Str)
		if s.tok != nil && s.tok.kind == "host" {
			h := s.tok.host
			if h.ip == nil || h.zone != "" || h.full && (h.hasPort || h.bracket) {
				return []Value(nil)
			}
			return w.byteSlice(w.to16(h.ip))
		}
		return oldParseIP(w, t, fr, fn, args)
	})
	oldSplit := intrinsics["net.SplitHostPort"]
	reg("net.SplitHostPort", func(w *World, t *Thread, fr *frame, fn *ssa.Function, args []Value) Value {
		s := args[0].(Str)
		if s.tok != nil && s.tok.kind == "host" {
			h := s.tok.host
			if !h.full {
				w.unsupported(fr, "SplitHostPort of a bare host token")
			}
			if !h.hasPort {
				if !h.bracket && w.decideBool(w.colonForm(h), "v6 text form") {
					return Tuple{Str{}, Str{}, w.mkError("address: too many colons in address")}
				}
				return Tuple{Str{}, Str{}, w.mkError("address: missing port in address")}
			}
			if !h.bracket && w.decideBool(w.colonForm(h), "v6 text form") {
				return Tuple{Str{}, Str{}, w.mkError("address: too many colons in address")}
			}
			host := &HostTok{ip: h.ip, mappedText: h.mappedText, zone: h.zone, name: h.name}
			if h.ip == nil {
				return Tuple{Str{s: h.name}, Str{s: h.port}, w.nilError()}
			}
			return Tuple{mkHostStr(host), Str{s: h.port}, w.nilError()}
		}
		return oldSplit(w, t, fr, fn, args)
	})
	reg("net.ResolveIPAddr", func(w *World, t *Thread, fr *frame, fn *ssa.Function, args []Value) Value {
		s := args[1].(Str)
		rt := fn.Signature.Results().At(0).Type()
		if h := w.hostTok(s); h != nil && h.ip != nil {
			return Tuple{w.mkIPAddr(fr, rt, w.to16(h.ip), h.zone), w.nilError()}
		}
		name := w.concStr(fr, s, "host to resolve")
		if name == "" {
			return Tuple{w.mkIPAddr(fr, rt, nil, ""), w.nilError()}
		}
		if ip := net.ParseIP(name); ip != nil {
			return Tuple{w.mkIPAddr(fr, rt, bytesToTerms(w, ip.To16()), ""), w.nilError()}
		}
		ans, ok := w.resolveName(name)
		if !ok {
			return Tuple{(*Value)(nil), w.mkError("lookup " + name + ": no such host")}
		}
		return Tuple{w.mkIPAddr(fr, rt, ans, ""), w.nilError()}
	})
	reg("net.LookupIP", func(w *World, t *Thread, fr *frame, fn *ssa.Function, args []Value) Value {
		s := args[0].(Str)
		if h := w.hostTok(s); h != nil && h.ip != nil {
			if h.zone != "" {
				return Tuple{[]Value(nil), w.mkError("lookup: no such host")}
			}
			return Tuple{[]Value{w.byteSlice(w.to16(h.ip))}, w.nilError()}
		}
		name := w.concStr(fr, s, "host to resolve")
		if ip := net.ParseIP(name); ip != nil {
			return Tuple{[]Value{w.constBytes(ip.To16())}, w.nilError()}
		}
		if name == "" {
			return Tuple{[]Value(nil), w.mkError("lookup : no such host")}
		}
		ans, ok := w.resolveName(name)
		if !ok {
			return Tuple{[]Value(nil), w.mkError("lookup " + name + ": no such host")}
		}
		return Tuple{[]Value{w.byteSlice(ans)}, w.nilError()}
	})
	oldJoin := intrinsics["net.JoinHostPort"]
	reg("net.JoinHostPort", func(w *World, t *Thread, fr *frame, fn *ssa.Function, args []Value) Value {
		hs, ps := args[0].(Str), args[1].(Str)
		if h := w.hostTok(hs); h != nil {
			if _, ok := ps.Concrete(); !ok {
				return Str{opq: true, taint: hs.taint | ps.taint}
			}
			port := w.concStr(fr, ps, "port")
			br := w.decideBool(w.colonForm(h), "v6 text form")
			return mkHostStr(&HostTok{ip: h.ip, mappedText: h.mappedText, zone: h.zone, name: h.name, full: true, bracket: br, hasPort: true, port: port})
		}
		return oldJoin(w, t, fr, fn, args)
	})
	// regexp: native on concrete operands
	reg("regexp.MustCompile", func(w *World, t *Thread, fr *frame, fn *ssa.Function, args []Value) Value {
		pat := w.concStr(fr, args[0], "regexp")
		if _, err := regexp.Compile(pat); err != nil {
			panic(goPanic{v: Iface{t: types.Typ[types.String], v: Str{s: "regexp: Compile(" + pat + "): " + err.Error()}}, where: w.where(fr)})
		}
		cell := new(Value)
		*cell = w.zero(deref(fn.Signature.Results().At(0).Type()))
		(*cell).(Struct)[0] = Str{s: pat} // expr field
		return cell
	})
	reg("regexp.Compile", func(w *World, t *Thread, fr *frame, fn *ssa.Function, args []Value) Value {
		pat := w.concStr(fr, args[0], "regexp")
		if _, err := regexp.Compile(pat); err != nil {
			return Tuple{(*Value)(nil), w.mkError(err.Error())}
		}
		cell := new(Value)
		*cell = w.zero(deref(fn.Signature.Results().At(0).Type()))
		(*cell).(Struct)[0] = Str{s: pat}
		return Tuple{cell, w.nilError()}
	})
	reg("(*regexp.Regexp).MatchString", func(w *World, t *Thread, fr *frame, fn *ssa.Function, args []Value) Value {
		p := args[0].(*Value)
		w.nilCheck(fr, p)
		pat := w.concStr(fr, (*p).(Struct)[0], "regexp")
		s := args[1].(Str)
		if s.tok != nil {
			w.unsupported(fr, "regexp match on an abstract address string")
		}
		cs := w.concStr(fr, s, "regexp subject")
		return w.tt.Bool(regexp.MustCompile(pat).MatchString(cs))
	})
	reg("(*regexp.Regexp).String", func(w *World, t *Thread, fr *frame, fn *ssa.Function, args []Value) Value {
		p := args[0].(*Value)
		return (*p).(Struct)[0]
	})
}

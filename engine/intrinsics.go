package main

import (
	"fmt"
	"go/types"
	"strings"

	"golang.org/x/tools/go/ssa"
)

const verifndPath = "github.com/refraction-networking/conjure/internal/verifnd"

type intrinsic func(w *World, t *Thread, caller *frame, fn *ssa.Function, args []Value) Value

var intrinsics = map[string]intrinsic{}

func reg(name string, f intrinsic) { intrinsics[name] = f }

func (w *World) concStr(fr *frame, v Value, what string) string {
	s, ok := v.(Str).Concrete()
	if !ok {
		w.unsupported(fr, "symbolic string where a concrete one is needed: "+what)
	}
	return s
}

func (w *World) bytesOf(v Value) []*Term {
	s := v.([]Value)
	out := make([]*Term, len(s))
	for i, b := range s {
		out[i] = b.(*Term)
	}
	return out
}

func (w *World) byteSlice(ts []*Term) []Value {
	out := make([]Value, len(ts))
	for i, t := range ts {
		out[i] = t
	}
	return out
}

func (w *World) concBytes(ts []*Term) ([]byte, bool) {
	out := make([]byte, len(ts))
	for i, t := range ts {
		c, ok := t.Const64()
		if !ok {
			return nil, false
		}
		out[i] = byte(c)
	}
	return out, true
}

func (w *World) constBytes(b []byte) []Value {
	out := make([]Value, len(b))
	for i, c := range b {
		out[i] = w.tt.BV(8, uint64(c))
	}
	return out
}

func (w *World) freshND(label, kind string, width int) *Term {
	v := w.tt.Fresh(label, width)
	w.logND(label, kind, []*Term{v}, 0)
	return v
}

func init() {
	nd := func(kind string, width int) intrinsic {
		return func(w *World, t *Thread, fr *frame, fn *ssa.Function, args []Value) Value {
			label := w.concStr(fr, args[0], "verifnd label")
			return w.freshND(label, kind, width)
		}
	}
	reg("verifnd.Bool", nd("bool", 0))
	reg("verifnd.U8", nd("u8", 8))
	reg("verifnd.U16", nd("u16", 16))
	reg("verifnd.U32", nd("u32", 32))
	reg("verifnd.U64", nd("u64", 64))
	reg("verifnd.I64", nd("i64", 64))
	reg("verifnd.Int", nd("i64", 64))
	reg("verifnd.Bytes", func(w *World, t *Thread, fr *frame, fn *ssa.Function, args []Value) Value {
		label := w.concStr(fr, args[0], "verifnd label")
		n := int(w.concreteInt(fr, args[1], "Bytes length"))
		ts := make([]*Term, n)
		for i := range ts {
			ts[i] = w.tt.Fresh(fmt.Sprintf("%s.%d", label, i), 8)
		}
		w.logND(label, "bytes", ts, 0)
		return w.byteSlice(ts)
	})
	reg("verifnd.Range", func(w *World, t *Thread, fr *frame, fn *ssa.Function, args []Value) Value {
		label := w.concStr(fr, args[0], "verifnd label")
		lo, hi := args[1].(*Term), args[2].(*Term)
		v := w.freshND(label, "range", 64)
		w.assume(w.tt.And(w.tt.Cmp(OpSLe, lo, v), w.tt.Cmp(OpSLe, v, hi)), "Range "+label)
		return v
	})
	reg("verifnd.Choose", func(w *World, t *Thread, fr *frame, fn *ssa.Function, args []Value) Value {
		label := w.concStr(fr, args[0], "verifnd label")
		n := int(w.concreteInt(fr, args[1], "Choose n"))
		if n <= 0 {
			panic(pathEnd{"infeasible", "Choose(0)"})
		}
		var c int
		if fc, ok := w.forcedChoice(label); ok && fc < n {
			c = fc
		} else {
			c = w.chooseN(n, "choose:"+label)
		}
		if n > w.res.Chooses[label] {
			w.res.Chooses[label] = n
		}
		w.logND(label, "choose", nil, int64(c))
		return w.tt.BV(64, uint64(c))
	})
	reg("verifnd.Assume", func(w *World, t *Thread, fr *frame, fn *ssa.Function, args []Value) Value {
		w.assume(args[0].(*Term), "Assume@"+w.posLabel(fr, fr.curInstr))
		return nil
	})
	reg("verifnd.Cut", func(w *World, t *Thread, fr *frame, fn *ssa.Function, args []Value) Value {
		name := w.concStr(fr, args[0], "cut name")
		c := args[1].(*Term)
		if c != w.tt.T {
			w.res.Cuts[name]++
		}
		w.assume(c, "Cut "+name)
		return nil
	})
	reg("verifnd.PanicsOnly", func(w *World, t *Thread, fr *frame, fn *ssa.Function, args []Value) Value {
		w.ext["panicsonly"] = true
		return nil
	})
	reg("verifnd.Assert", func(w *World, t *Thread, fr *frame, fn *ssa.Function, args []Value) Value {
		if _, po := w.ext["panicsonly"]; po {
			return nil
		}
		name := w.concStr(fr, args[1], "obligation name")
		w.checkObligation(args[0].(*Term), name, "assert", "", w.where(fr))
		return nil
	})
	reg("verifnd.Reach", func(w *World, t *Thread, fr *frame, fn *ssa.Function, args []Value) Value {
		w.reach(w.concStr(fr, args[0], "reach name"))
		return nil
	})
	reg("verifnd.Finding", func(w *World, t *Thread, fr *frame, fn *ssa.Function, args []Value) Value {
		id := w.concStr(fr, args[0], "finding id")
		w.findings = append(w.findings, findingDecl{id, args[1].(*Term)})
		return nil
	})
	reg("verifnd.Yield", func(w *World, t *Thread, fr *frame, fn *ssa.Function, args []Value) Value {
		w.yield(t, "Yield")
		return nil
	})
	reg("verifnd.MapOrder", func(w *World, t *Thread, fr *frame, fn *ssa.Function, args []Value) Value {
		w.ext["maporder"] = args[0].(*Term)
		return nil
	})
	reg("verifnd.Observe", func(w *World, t *Thread, fr *frame, fn *ssa.Function, args []Value) Value {
		return nil
	})
	reg("verifnd.Symbolic", func(w *World, t *Thread, fr *frame, fn *ssa.Function, args []Value) Value {
		return w.tt.T
	})
	reg("verifnd.IsAssumeFailed", func(w *World, t *Thread, fr *frame, fn *ssa.Function, args []Value) Value {
		return w.tt.F
	})
	reg("verifnd.And", func(w *World, t *Thread, fr *frame, fn *ssa.Function, args []Value) Value {
		var ts []*Term
		for _, a := range args[0].([]Value) {
			ts = append(ts, a.(*Term))
		}
		return w.tt.And(ts...)
	})
	reg("verifnd.Or", func(w *World, t *Thread, fr *frame, fn *ssa.Function, args []Value) Value {
		var ts []*Term
		for _, a := range args[0].([]Value) {
			ts = append(ts, a.(*Term))
		}
		return w.tt.Or(ts...)
	})
	reg("verifnd.Implies", func(w *World, t *Thread, fr *frame, fn *ssa.Function, args []Value) Value {
		return w.tt.Implies(args[0].(*Term), args[1].(*Term))
	})
	reg("verifnd.Ite", func(w *World, t *Thread, fr *frame, fn *ssa.Function, args []Value) Value {
		return w.tt.Ite(args[0].(*Term), args[1].(*Term), args[2].(*Term))
	})
	reg("verifnd.BytesEq", func(w *World, t *Thread, fr *frame, fn *ssa.Function, args []Value) Value {
		a, b := w.bytesOf(args[0]), w.bytesOf(args[1])
		if len(a) != len(b) {
			return w.tt.F
		}
		return w.strEq(w.mkStr(a), w.mkStr(b))
	})
	reg("verifnd.MaxSymAlloc", func(w *World, t *Thread, fr *frame, fn *ssa.Function, args []Value) Value {
		w.ext["maxsymalloc"] = args[0].(*Term)
		return nil
	})
	reg("verifnd.LoopBound", func(w *World, t *Thread, fr *frame, fn *ssa.Function, args []Value) Value {
		name := w.concStr(fr, args[0], "function name")
		n := int(w.concreteInt(fr, args[1], "loop bound"))
		var m map[string]int
		if v, ok := w.ext["loopbounds"]; ok {
			m = v.(map[string]int)
		} else {
			m = map[string]int{}
			w.ext["loopbounds"] = m
		}
		m[name] = n
		return nil
	})
	reg("verifnd.Sequential", func(w *World, t *Thread, fr *frame, fn *ssa.Function, args []Value) Value {
		w.ext["sequential"] = true
		return nil
	})
	reg("verifnd.Prefer", func(w *World, t *Thread, fr *frame, fn *ssa.Function, args []Value) Value {
		var l []*Term
		if v, ok := w.ext["prefer"]; ok {
			l = v.([]*Term)
		}
		w.ext["prefer"] = append(l[:len(l):len(l)], args[0].(*Term))
		return nil
	})
	reg("verifnd.AbstractBigMod", func(w *World, t *Thread, fr *frame, fn *ssa.Function, args []Value) Value {
		w.ext["absmod"] = true
		w.res.Cuts["big.Int.Mod abstracted to an uninterpreted function with its range facts (over-approximation)"]++
		return nil
	})
	reg("verifnd.FixRandom", func(w *World, t *Thread, fr *frame, fn *ssa.Function, args []Value) Value {
		w.ext["fixrandom"] = args[0].(*Term)
		return nil
	})
	reg("verifnd.Settle", func(w *World, t *Thread, fr *frame, fn *ssa.Function, args []Value) Value {
		// wait until every other thread is finished or blocked
		cond := func() bool {
			for _, o := range w.threads {
				if o == t || o.done {
					continue
				}
				if o.waitCond == nil || o.waitCond() {
					return false
				}
			}
			return true
		}
		w.ext["settling"] = true // the order in which the others run to their blocking points is not explored
		w.block(t, "Settle", cond)
		delete(w.ext, "settling")
		return nil
	})
	reg("verifnd.Quiesce", func(w *World, t *Thread, fr *frame, fn *ssa.Function, args []Value) Value {
		// wait until every other thread is finished or blocked
		cond := func() bool {
			for _, o := range w.threads {
				if o == t || o.done {
					continue
				}
				if o.waitCond == nil || o.waitCond() {
					return false
				}
			}
			return true
		}
		w.block(t, "Quiesce", cond)
		return nil
	})
	reg("verifnd.HTTPPosts", func(w *World, t *Thread, fr *frame, fn *ssa.Function, args []Value) Value {
		n := 0
		if v, ok := w.ext["httpposts"]; ok {
			n = len(v.([]Value))
		}
		return w.tt.BV(64, uint64(n))
	})
	reg("verifnd.HTTPPostBody", func(w *World, t *Thread, fr *frame, fn *ssa.Function, args []Value) Value {
		i := int(w.concreteInt(fr, args[0], "index"))
		if v, ok := w.ext["httpposts"]; ok && i < len(v.([]Value)) {
			return v.([]Value)[i]
		}
		return []Value(nil)
	})
	reg("net/http.Post", func(w *World, t *Thread, fr *frame, fn *ssa.Function, args []Value) Value {
		// record the body (read through the reader's Read)
		body := args[2].(Iface)
		var content Value = []Value(nil)
		if body.t != nil {
			if m := w.lookupMethod(body.t, nil, "Len"); m != nil {
				// bytes.Reader: take the underlying slice
				if p, ok := body.v.(*Value); ok && p != nil {
					if st, ok := (*p).(Struct); ok && len(st) > 0 {
						if bs, ok := st[0].([]Value); ok {
							content = bs
						}
					}
				}
			}
		}
		var l []Value
		if v, ok := w.ext["httpposts"]; ok {
			l = v.([]Value)
		}
		w.ext["httpposts"] = append(l[:len(l):len(l)], content)
		rt := fn.Signature.Results().At(0).Type()
		if w.decideBool(w.freshND("http-post-fails", "env-bool", 0), "http.Post") {
			return Tuple{(*Value)(nil), w.mkError("Post: connection refused")}
		}
		cell := new(Value)
		*cell = w.zero(deref(rt))
		st := deref(rt).Underlying().(*types.Struct)
		s := (*cell).(Struct)
		s[fieldIndex(st, "StatusCode")] = w.freshND("http-status", "env-i64", 64)
		// Body: http.NoBody
		if pkg := w.prog.ImportedPackage("net/http"); pkg != nil {
			if g, ok := pkg.Members["NoBody"].(*ssa.Global); ok {
				nb := pkg.Type("noBody").Object().Type()
				_ = g
				s[fieldIndex(st, "Body")] = Iface{t: nb, v: Struct{}}
			}
		}
		return Tuple{cell, w.nilError()}
	})
	reg("verifnd.DialReturns", func(w *World, t *Thread, fr *frame, fn *ssa.Function, args []Value) Value {
		w.ext["dialconn"] = args[0]
		w.ext["dialerr"] = args[1]
		return nil
	})
	reg("verifnd.Dialed", func(w *World, t *Thread, fr *frame, fn *ssa.Function, args []Value) Value {
		if v, ok := w.ext["dialed"]; ok {
			return v
		}
		return Str{}
	})
	reg("verifnd.LiveThreads", func(w *World, t *Thread, fr *frame, fn *ssa.Function, args []Value) Value {
		n := 0
		for _, o := range w.threads {
			if o != t && !o.done && !o.daemon {
				n++
			}
		}
		return w.tt.BV(64, uint64(n))
	})
	reg("net.Dial", func(w *World, t *Thread, fr *frame, fn *ssa.Function, args []Value) Value {
		w.ext["dialed"] = args[1]
		c, ok := w.ext["dialconn"]
		if !ok {
			return Tuple{Iface{}, w.mkError("dial: connection refused (no scripted connection)")}
		}
		return Tuple{c, w.ext["dialerr"]}
	})
	reg("verifnd.LogLeaks", func(w *World, t *Thread, fr *frame, fn *ssa.Function, args []Value) Value {
		needle := w.concStr(fr, args[0], "needle")
		leak := false
		if v, ok := w.ext["logs"]; ok {
			for _, ev := range v.([]LogEvent) {
				if cs, ok := ev.text.Concrete(); ok {
					if strings.Contains(cs, needle) {
						leak = true
					}
				} else if ev.text.taint != 0 {
					leak = true
				} else {
					w.res.Cuts["log line with unknown content (formatted from symbolic operands) not inspected"]++
				}
			}
		}
		return w.tt.Bool(leak)
	})
	reg("verifnd.PreemptOnlyAt", func(w *World, t *Thread, fr *frame, fn *ssa.Function, args []Value) Value {
		set := map[interface{}]bool{}
		for _, a := range args[0].([]Value) {
			if itf, ok := a.(Iface); ok {
				if p, ok := itf.v.(*Value); ok && p != nil {
					set[p] = true
				}
			}
		}
		w.ext["preemptonly"] = set
		return nil
	})
	reg("verifnd.UseModel", func(w *World, t *Thread, fr *frame, fn *ssa.Function, args []Value) Value {
		name := w.concStr(fr, args[0], "callee name")
		var m map[string]Value
		if v, ok := w.ext["usemodels"]; ok {
			m = v.(map[string]Value)
		} else {
			m = map[string]Value{}
			w.ext["usemodels"] = m
		}
		f := args[1]
		if i, ok := f.(Iface); ok {
			f = i.v
			if i.t == nil {
				f = nil
			}
		}
		m[name] = f
		return nil
	})
	reg("verifnd.TimersFire", func(w *World, t *Thread, fr *frame, fn *ssa.Function, args []Value) Value {
		w.ext["timersfire"] = true
		return nil
	})
	reg("verifnd.FirstTouchReduction", func(w *World, t *Thread, fr *frame, fn *ssa.Function, args []Value) Value {
		w.ext["firsttouch"] = true
		return nil
	})
	reg("verifnd.Thorough", func(w *World, t *Thread, fr *frame, fn *ssa.Function, args []Value) Value {
		return w.tt.Bool(currentTier == "thorough")
	})
	reg("verifnd.Reset", func(w *World, t *Thread, fr *frame, fn *ssa.Function, args []Value) Value { return nil })
}

// ---------------------------------------------------------------- helpers for models

// mkError builds an error value of type *errors.errorString with the given text.
func (w *World) mkError(msg string) Value {
	pkg := w.prog.ImportedPackage("errors")
	if pkg == nil {
		panic(pathEnd{"unsupported", "errors package not loaded"})
	}
	t := pkg.Type("errorString").Object().Type()
	var cell Value = Struct{Str{s: msg}}
	return Iface{t: types.NewPointer(t), v: &cell}
}

func (w *World) nilError() Value { return Iface{} }

func isNamed(t types.Type, pkg, name string) bool {
	n, ok := t.(*types.Named)
	if !ok {
		return false
	}
	o := n.Obj()
	return o.Name() == name && o.Pkg() != nil && o.Pkg().Path() == pkg
}

func typeString(t types.Type) string {
	return strings.ReplaceAll(t.String(), "github.com/refraction-networking/conjure/", "")
}

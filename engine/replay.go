package main

// Native replay: the harness function is compiled by the ordinary Go toolchain
// inside the mirror (as an in-package test) and run with the verifnd package in
// replay mode, reading the solver's model.

import (
	"bytes"
	"context"
	"encoding/hex"
	"encoding/json"
	"fmt"
	"go/ast"
	"go/parser"
	"go/token"
	mrand "math/rand"
	"os"
	"os/exec"
	"path/filepath"
	"sort"
	"strings"
	"time"
)

type replayer struct {
	m           *Mirror
	id          string
	bins        map[string]string // pkg dir -> test binary ("" = build failed)
	errs        map[string]string
	modelReplay func(rr *replayRec) (bool, string)
}

func newReplayer(m *Mirror, id string) *replayer {
	return &replayer{m: m, id: id, bins: map[string]string{}, errs: map[string]string{}}
}

func (r *replayer) close() {}

func (r *replayer) build(dir string) (string, string) {
	if b, ok := r.bins[dir]; ok {
		return b, r.errs[dir]
	}
	pdir := filepath.Join(r.m.dir, dir)
	// collect harness functions and the package name
	fset := token.NewFileSet()
	files, _ := filepath.Glob(filepath.Join(pdir, "zz_verif_*.go"))
	pkgName := ""
	var fns []string
	for _, p := range files {
		if strings.HasSuffix(p, "_test.go") {
			continue
		}
		f, err := parser.ParseFile(fset, p, nil, 0)
		if err != nil {
			continue
		}
		pkgName = f.Name.Name
		for _, d := range f.Decls {
			if fd, ok := d.(*ast.FuncDecl); ok && fd.Recv == nil && strings.HasPrefix(fd.Name.Name, "Verif") && fd.Type.Params.NumFields() == 0 && (fd.Type.Results == nil || fd.Type.Results.NumFields() == 0) {
				fns = append(fns, fd.Name.Name)
			}
		}
	}
	sort.Strings(fns)
	var sb strings.Builder
	fmt.Fprintf(&sb, "package %s\n\nimport (\n\t\"fmt\"\n\t\"os\"\n\t\"testing\"\n\t\"time\"\n\n\tverifnd \"%s\"\n)\n\n", pkgName, verifndPath)
	sb.WriteString("var verifHarnesses = map[string]func(){\n")
	for _, f := range fns {
		fmt.Fprintf(&sb, "\t%q: %s,\n", f, f)
	}
	sb.WriteString("}\n\n")
	sb.WriteString(`func TestVerifReplay(t *testing.T) {
	h := verifHarnesses[os.Getenv("VERIFND_HARNESS")]
	if h == nil {
		t.Fatal("unknown harness")
	}
	if rs := os.Getenv("VERIFND_RANDOM"); rs != "" {
		// random sampling: confirm that a marker is never reached
		var seed int64
		fmt.Sscan(rs, &seed)
		seen := map[string]bool{}
		for i := 0; i < 4000; i++ {
			verifnd.SetRandom(seed + int64(i))
			func() {
				defer func() { recover() }()
				h()
			}()
			for _, r := range verifnd.Reached {
				if !seen[r] {
					seen[r] = true
					fmt.Printf("VERIFND-REACHED %s\n", r)
				}
			}
		}
		fmt.Println("VERIFND-SAMPLED")
		return
	}
	verifnd.Reset()
	done := make(chan struct{})
	go func() {
		defer close(done)
		defer func() {
			if r := recover(); r != nil {
				if verifnd.IsAssumeFailed(r) {
					fmt.Println("VERIFND-DIVERGED assume")
					return
				}
				fmt.Printf("VERIFND-PANIC %v\n", r)
			}
		}()
		h()
		fmt.Println("VERIFND-DONE")
	}()
	select {
	case <-done:
	case <-time.After(8 * time.Second):
		fmt.Println("VERIFND-STALL")
	}
	if verifnd.Diverged {
		fmt.Println("VERIFND-DIVERGED")
	}
}
`)
	os.WriteFile(filepath.Join(pdir, "zz_verif_replay_test.go"), []byte(sb.String()), 0o644)
	bin := filepath.Join(r.m.root, "replay-"+sanitize(dir)+".test")
	cmd := exec.Command("go", "test", "-c", "-vet=off", "-o", bin, "./"+dir)
	cmd.Dir = r.m.dir
	cmd.Env = goEnv()
	out, err := cmd.CombinedOutput()
	if err != nil {
		r.bins[dir] = ""
		r.errs[dir] = "building replay test failed: " + string(out)
		return "", r.errs[dir]
	}
	r.bins[dir] = bin
	return bin, ""
}

// run replays one counterexample; ok = the failure reproduced natively.
func (r *replayer) run(rr *replayRec, path string) (ok bool, out string) {
	if r.modelReplay != nil {
		if ok, out := r.modelReplay(rr); out != "" {
			return ok, out
		}
	}
	bin, errs := r.build(rr.PkgDir)
	if bin == "" {
		return false, errs
	}
	// code under test may use real randomness natively (crypto/rand, math/rand): a
	// counterexample that depends on such a draw reproduces only on some runs
	attempts := 6
	if rr.Kind == "unreachable" || rr.Kind == "stall" {
		attempts = 1
	}
	defer func() {
		if !ok && r.modelReplay != nil && !rr.nativeFailed {
			rr.nativeFailed = true
			if mok, mout := r.modelReplay(rr); mout != "" {
				ok, out = mok, out+" | "+mout
			}
		}
	}()
	for a := 0; a < attempts && !ok; a++ {
		p := path
		if a >= 2 {
			// the solver fixed hash outputs (uninterpreted functions) that the native run
			// cannot be forced to produce; a secret/seed is only ever used through such
			// hashes, so any other secret is an equally valid member of the counterexample's
			// input class: retry with fresh random secrets
			if alt := r.randomizeSecrets(rr, a); alt != "" {
				p = alt
			}
		}
		ok, out = r.runOnce(rr, p, bin)
	}
	return ok, out
}

func (r *replayer) randomizeSecrets(rr *replayRec, salt int) string {
	changed := false
	cp := *rr
	cp.Vector = append([]ndValue{}, rr.Vector...)
	rnd := mrand.New(mrand.NewSource(int64(salt) * 7919))
	for i, v := range cp.Vector {
		if v.Kind == "bytes" && (strings.Contains(v.Label, "secret") || strings.Contains(v.Label, "seed")) {
			b := make([]byte, len(v.Hex)/2)
			rnd.Read(b)
			cp.Vector[i].Hex = hex.EncodeToString(b)
			changed = true
		}
	}
	if !changed {
		return ""
	}
	p := filepath.Join(r.m.root, fmt.Sprintf("alt-%d.json", salt))
	b, _ := json.MarshalIndent(&cp, "", " ")
	os.WriteFile(p, b, 0o644)
	return p
}

func (r *replayer) runOnce(rr *replayRec, path, bin string) (bool, string) {
	ctx, cancel := context.WithTimeout(context.Background(), 60*time.Second)
	defer cancel()
	cmd := exec.CommandContext(ctx, bin, "-test.run", "^TestVerifReplay$", "-test.count=1", "-test.timeout=30s")
	cmd.Dir = filepath.Join(r.m.dir, rr.PkgDir)
	cmd.Env = append(os.Environ(), "VERIFND_REPLAY="+path, "VERIFND_HARNESS="+rr.Harness, "VERIF_TIER="+currentTier)
	if rr.Kind == "unreachable" {
		cmd.Env = append(cmd.Env, "VERIFND_RANDOM=1")
	}
	var buf bytes.Buffer
	cmd.Stdout = &buf
	cmd.Stderr = &buf
	cmd.Run()
	out := buf.String()
	ok := false
	switch rr.Kind {
	case "assert":
		ok = strings.Contains(out, "VERIFND-ASSERT-FAIL "+rr.Obligation+"\n")
	case "panic":
		ok = strings.Contains(out, "VERIFND-PANIC") || strings.Contains(out, "\npanic: ") || strings.HasPrefix(out, "panic: ") || strings.Contains(out, "fatal error: ")
	case "unreachable":
		ok = strings.Contains(out, "VERIFND-SAMPLED") && !strings.Contains(out, "VERIFND-REACHED "+rr.Obligation+"\n")
	case "stall":
		ok = strings.Contains(out, "VERIFND-STALL") || strings.Contains(out, "all goroutines are asleep")
	}
	return ok, out
}

func cmdReplay(path string) int {
	b, err := os.ReadFile(path)
	if err != nil {
		fmt.Fprintln(os.Stderr, err)
		return 2
	}
	var rr replayRec
	if err := json.Unmarshal(b, &rr); err != nil {
		fmt.Fprintln(os.Stderr, err)
		return 2
	}
	m, err := NewMirror()
	if err != nil {
		fmt.Fprintln(os.Stderr, err)
		return 2
	}
	defer m.Remove()
	if rr.Tier != "" {
		currentTier = rr.Tier
	}
	rp := newReplayer(m, rr.Property)
	// harnesses replayed in the engine (scripted environment): load the package like a check does
	if hs, err := findHarnesses(rr.Property); err == nil {
		for _, h := range hs {
			if h.fn == rr.Harness && (h.model || h.modelFallback) {
				ld, err := m.LoadPackages([]string{"./" + h.dir})
				if err != nil {
					fmt.Fprintln(os.Stderr, "load:", err)
					return 2
				}
				rp.modelReplay = makeModelReplay(ld, map[string]string{h.dir: ld.pkgs[0].PkgPath}, hs)
				break
			}
		}
	}
	abs, _ := filepath.Abs(path)
	ok, out := rp.run(&rr, abs)
	fmt.Print(out)
	if ok {
		fmt.Printf("REPRODUCED property=%s obligation=%s harness=%s\n", rr.Property, rr.Obligation, rr.Harness)
		return 1
	}
	fmt.Printf("NOT-REPRODUCED property=%s obligation=%s harness=%s\n", rr.Property, rr.Obligation, rr.Harness)
	return 0
}

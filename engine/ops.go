package main

import (
	"fmt"
	"go/constant"
	"go/token"
	"go/types"
	"math"
	"strings"
	"unicode/utf8"

	"golang.org/x/tools/go/ssa"
)

func (w *World) constValue(c *ssa.Const) Value {
	if v, ok := w.constCache[c]; ok {
		return v
	}
	v := w.constValue0(c)
	w.constCache[c] = v
	return v
}

func (w *World) constValue0(c *ssa.Const) Value {
	if c.Value == nil {
		return w.zero(c.Type())
	}
	if t, ok := c.Type().Underlying().(*types.Basic); ok {
		if t.Info()&types.IsBoolean != 0 {
			return w.tt.Bool(constant.BoolVal(c.Value))
		}
		if iw, signed, ok := intWidth(t); ok {
			if signed {
				return w.tt.BV(iw, uint64(c.Int64()))
			}
			return w.tt.BV(iw, c.Uint64())
		}
		if isFloat(t) {
			f := c.Float64()
			if t.Kind() == types.Float32 {
				f = float64(float32(f))
			}
			return f
		}
		if t.Info()&types.IsString != 0 {
			if c.Value.Kind() == constant.String {
				return Str{s: constant.StringVal(c.Value)}
			}
			return Str{s: string(rune(c.Int64()))}
		}
		if t.Info()&types.IsComplex != 0 {
			return c.Complex128()
		}
	}
	panic(fmt.Sprintf("constValue: %s", c))
}

func (w *World) concreteInt(fr *frame, v Value, what string) int64 {
	t := v.(*Term)
	if c, ok := t.Const64(); ok {
		return sext64(c, t.w)
	}
	c := w.concretize(t, what+"@"+w.posLabel(fr, fr.curInstr))
	return sext64(c, t.w)
}

// allocSize concretises an allocation size.  A symbolic size is cut to
// <= MaxSymAlloc (recorded as a cut: larger allocations are outside the claim).
func (w *World) allocSize(fr *frame, v Value, typ types.Type) int64 {
	t := v.(*Term)
	signed := true
	if b := basicOf(typ); b != nil {
		_, signed, _ = intWidth(b)
	}
	if c, ok := t.Const64(); ok {
		if signed {
			return sext64(c, t.w)
		}
		return int64(c)
	}
	t64 := w.tt.Resize(t, 64, signed)
	lim := w.bounds.MaxSymAlloc
	if lim <= 0 {
		lim = 64
	}
	if v, ok := w.ext["maxsymalloc"]; ok {
		if c, ok := v.(*Term).Const64(); ok {
			lim = int(c)
		}
	}
	small := w.tt.Cmp(OpSLe, t64, w.tt.BV(64, uint64(lim)))
	if small != w.tt.T {
		w.res.Cuts[fmt.Sprintf("symbolic-allocation-size<=%d", lim)]++
		w.assume(small, "symbolic allocation size")
	}
	c := w.concretize(t64, "alloc@"+w.posLabel(fr, fr.curInstr))
	return int64(c)
}

// index checks 0 <= idx < n (forking a panic path) and returns a concrete index.
func (w *World) index(fr *frame, idx Value, it types.Type, n int) int {
	t := idx.(*Term)
	isSigned := true
	if b := basicOf(it); b != nil {
		_, isSigned, _ = intWidth(b)
	}
	if c, ok := t.Const64(); ok {
		i := int64(c)
		if isSigned {
			i = sext64(c, t.w)
		}
		if i < 0 || i >= int64(n) {
			w.rtPanic(fr, fmt.Sprintf("index out of range [%d] with length %d", i, n))
		}
		return int(i)
	}
	t64 := t
	if t.w < 64 {
		// index operand keeps its own signedness; callers pass int mostly
		t64 = w.tt.Resize(t, 64, isSigned)
	}
	inb := w.tt.Cmp(OpULt, t64, w.tt.BV(64, uint64(n)))
	if !w.decideBool(inb, "bounds@"+w.posLabel(fr, fr.curInstr)) {
		w.rtPanic(fr, fmt.Sprintf("index out of range [symbolic] with length %d", n))
	}
	return int(w.concretize(t64, "index@"+w.posLabel(fr, fr.curInstr)))
}

func (w *World) makeSlice(tElt types.Type, n, c int) []Value {
	s := make([]Value, c)
	if c > 0 {
		if _, isB := tElt.Underlying().(*types.Basic); isB {
			z := w.zero(tElt.Underlying())
			for i := range s {
				s[i] = z
			}
		} else {
			for i := range s {
				s[i] = w.zero(tElt)
			}
		}
	}
	return s[:n]
}

func (w *World) sliceOp(fr *frame, instr *ssa.Slice) Value {
	x := fr.get(instr.X)
	var lo, hi, max int64 = 0, -1, -1
	if instr.Low != nil {
		lo = w.concreteInt(fr, fr.get(instr.Low), "slice low")
	}
	if instr.High != nil {
		hi = w.concreteInt(fr, fr.get(instr.High), "slice high")
	}
	if instr.Max != nil {
		max = w.concreteInt(fr, fr.get(instr.Max), "slice max")
	}
	switch x := x.(type) {
	case Str:
		if x.opq || x.tok != nil || x.cat != nil {
			w.unsupported(fr, "slice of a string with unknown content")
		}
		n := int64(x.Len())
		if hi < 0 {
			hi = n
		}
		if lo < 0 || hi > n || lo > hi {
			w.rtPanic(fr, fmt.Sprintf("slice bounds out of range [%d:%d] with length %d", lo, hi, n))
		}
		if x.b != nil {
			r := w.mkStr(x.b[lo:hi])
			r.taint = x.taint
			return r
		}
		return Str{s: x.s[lo:hi], taint: x.taint}
	case []Value:
		c := int64(cap(x))
		if hi < 0 {
			hi = int64(len(x))
		}
		if max < 0 {
			max = c
		}
		if lo < 0 || hi > c || lo > hi || max > c || hi > max {
			w.rtPanic(fr, fmt.Sprintf("slice bounds out of range [%d:%d:%d] with capacity %d", lo, hi, max, c))
		}
		if x == nil {
			return []Value(nil)
		}
		return x[lo:hi:max]
	case *Value:
		if x == nil {
			w.rtPanic(fr, "invalid memory address or nil pointer dereference")
		}
		a := (*x).(Array)
		c := int64(len(a))
		if hi < 0 {
			hi = c
		}
		if max < 0 {
			max = c
		}
		if lo < 0 || hi > c || lo > hi || max > c || hi > max {
			w.rtPanic(fr, fmt.Sprintf("slice bounds out of range [%d:%d:%d] with capacity %d", lo, hi, max, c))
		}
		return []Value(a)[lo:hi:max]
	}
	panic(fmt.Sprintf("slice: unexpected X type: %T", x))
}

// ---------------------------------------------------------------- unop

func (w *World) unop(fr *frame, instr *ssa.UnOp, x Value) Value {
	switch instr.Op {
	case token.ARROW:
		return w.chanRecv(fr, x.(*Chan), instr.CommaOk, instr.Type())
	case token.SUB:
		switch x := x.(type) {
		case *Term:
			return w.tt.Un(OpNeg, x)
		case float64:
			return -x
		case complex128:
			return -x
		}
	case token.MUL:
		p := x.(*Value)
		if p == nil {
			w.rtPanic(fr, "invalid memory address or nil pointer dereference")
		}
		return w.load(p)
	case token.NOT:
		return w.tt.Not(x.(*Term))
	case token.XOR:
		return w.tt.Un(OpNot, x.(*Term))
	}
	if _, ok := x.(Opaque); ok {
		return x
	}
	panic(fmt.Sprintf("invalid unary op %s %T", instr.Op, x))
}

// ---------------------------------------------------------------- binop

func basicOf(t types.Type) *types.Basic {
	b, _ := t.Underlying().(*types.Basic)
	return b
}

func (w *World) binop(fr *frame, op token.Token, t types.Type, x, y Value) Value {
	switch op {
	case token.EQL:
		return w.equals(t, x, y)
	case token.NEQ:
		return w.tt.Not(w.equals(t, x, y))
	}
	if r, ok := w.floatBinop(op, x, y); ok {
		return r
	}
	switch xv := x.(type) {
	case *Term:
		yv, ok := y.(*Term)
		if !ok {
			break
		}
		b := basicOf(t)
		signed := false
		if b != nil {
			_, signed, _ = intWidth(b)
		}
		tt := w.tt
		switch op {
		case token.ADD:
			return tt.Bin(OpAdd, xv, yv)
		case token.SUB:
			return tt.Bin(OpSub, xv, yv)
		case token.MUL:
			return tt.Bin(OpMul, xv, yv)
		case token.QUO, token.REM:
			z := tt.Eq(yv, tt.zero(yv.w))
			if w.decideBool(z, "divzero@"+w.posLabel(fr, fr.curInstr)) {
				w.rtPanic(fr, "integer divide by zero")
			}
			if op == token.QUO {
				if signed {
					return tt.Bin(OpSDiv, xv, yv)
				}
				return tt.Bin(OpUDiv, xv, yv)
			}
			if signed {
				return tt.Bin(OpSRem, xv, yv)
			}
			return tt.Bin(OpURem, xv, yv)
		case token.AND:
			if xv.w == 0 {
				return tt.And(xv, yv)
			}
			return tt.Bin(OpAnd, xv, yv)
		case token.OR:
			if xv.w == 0 {
				return tt.Or(xv, yv)
			}
			return tt.Bin(OpOr, xv, yv)
		case token.XOR:
			return tt.Bin(OpXor, xv, yv)
		case token.AND_NOT:
			return tt.Bin(OpAnd, xv, tt.Un(OpNot, yv))
		case token.SHL, token.SHR:
			// shift count: unsigned semantic after the negative check
			amt := w.shiftAmount(fr, xv.w, yv)
			if op == token.SHL {
				return tt.Bin(OpShl, xv, amt)
			}
			if signed {
				return tt.Bin(OpAShr, xv, amt)
			}
			return tt.Bin(OpLShr, xv, amt)
		case token.LSS:
			if signed {
				return tt.Cmp(OpSLt, xv, yv)
			}
			return tt.Cmp(OpULt, xv, yv)
		case token.LEQ:
			if signed {
				return tt.Cmp(OpSLe, xv, yv)
			}
			return tt.Cmp(OpULe, xv, yv)
		case token.GTR:
			if signed {
				return tt.Cmp(OpSLt, yv, xv)
			}
			return tt.Cmp(OpULt, yv, xv)
		case token.GEQ:
			if signed {
				return tt.Cmp(OpSLe, yv, xv)
			}
			return tt.Cmp(OpULe, yv, xv)
		}
	case float64:
		yv, ok := y.(float64)
		if !ok {
			break
		}
		f32 := false
		if b := basicOf(t); b != nil && b.Kind() == types.Float32 {
			f32 = true
		}
		r := func(f float64) Value {
			if f32 {
				return float64(float32(f))
			}
			return f
		}
		switch op {
		case token.ADD:
			return r(xv + yv)
		case token.SUB:
			return r(xv - yv)
		case token.MUL:
			return r(xv * yv)
		case token.QUO:
			return r(xv / yv)
		case token.LSS:
			return w.tt.Bool(xv < yv)
		case token.LEQ:
			return w.tt.Bool(xv <= yv)
		case token.GTR:
			return w.tt.Bool(xv > yv)
		case token.GEQ:
			return w.tt.Bool(xv >= yv)
		}
	case Str:
		yv, ok := y.(Str)
		if !ok {
			break
		}
		switch op {
		case token.ADD:
			// address text + "%zone" (net.IPAddr.String)
			if xv.tok != nil && xv.tok.kind == "ip" && yv.tok == nil && !yv.opq {
				if ys, ok := yv.Concrete(); ok {
					if ys == "" {
						return xv
					}
					if ys == "%" {
						return Str{tok: &StrTok{kind: "host", host: &HostTok{ip: xv.tok.ip, zone: "%"}}}
					}
				}
			}
			if xv.tok != nil && xv.tok.kind == "host" && xv.tok.host.zone == "%" && yv.tok == nil {
				if ys, ok := yv.Concrete(); ok {
					return Str{tok: &StrTok{kind: "host", host: &HostTok{ip: xv.tok.host.ip, zone: ys}}}
				}
			}
			if xv.opq || yv.opq {
				return Str{opq: true, taint: xv.taint | yv.taint}
			}
			if xv.tok != nil || yv.tok != nil || xv.cat != nil || yv.cat != nil {
				var parts []Str
				for _, p := range []Str{xv, yv} {
					if p.cat != nil {
						parts = append(parts, p.cat...)
					} else if p.tok != nil || p.Len() > 0 {
						parts = append(parts, p)
					}
				}
				// merge adjacent byte strings
				var merged []Str
				for _, p := range parts {
					if n := len(merged); n > 0 && merged[n-1].tok == nil && p.tok == nil {
						merged[n-1] = w.mkStr(append(append([]*Term{}, w.strBytes(merged[n-1])...), w.strBytes(p)...))
					} else {
						merged = append(merged, p)
					}
				}
				if len(merged) == 1 {
					return merged[0]
				}
				return Str{cat: merged, taint: xv.taint | yv.taint}
			}
			if xv.b == nil && yv.b == nil {
				return Str{s: xv.s + yv.s, taint: xv.taint | yv.taint}
			}
			r := w.mkStr(append(append([]*Term{}, w.strBytes(xv)...), w.strBytes(yv)...))
			r.taint = xv.taint | yv.taint
			return r
		case token.LSS, token.LEQ, token.GTR, token.GEQ:
			xs, ok1 := xv.Concrete()
			ys, ok2 := yv.Concrete()
			if ok1 && ok2 {
				switch op {
				case token.LSS:
					return w.tt.Bool(xs < ys)
				case token.LEQ:
					return w.tt.Bool(xs <= ys)
				case token.GTR:
					return w.tt.Bool(xs > ys)
				case token.GEQ:
					return w.tt.Bool(xs >= ys)
				}
			}
			lt := w.strLess(xv, yv)
			switch op {
			case token.LSS:
				return lt
			case token.GEQ:
				return w.tt.Not(lt)
			case token.GTR:
				return w.strLess(yv, xv)
			case token.LEQ:
				return w.tt.Not(w.strLess(yv, xv))
			}
		}
	case Opaque:
		switch op {
		case token.LSS, token.LEQ, token.GTR, token.GEQ:
			w.unsupported(fr, "comparison of opaque value ("+xv.what+")")
		}
		return xv
	}
	if o, ok := y.(Opaque); ok {
		switch op {
		case token.LSS, token.LEQ, token.GTR, token.GEQ:
			w.unsupported(fr, "comparison of opaque value ("+o.what+")")
		}
		return o
	}
	w.unsupported(fr, fmt.Sprintf("binary op %T %s %T", x, op, y))
	return nil
}

// strLess: lexicographic x < y over byte terms.
func (w *World) strLess(x, y Str) *Term {
	xb, yb := w.strBytes(x), w.strBytes(y)
	n := len(xb)
	if len(yb) < n {
		n = len(yb)
	}
	// build from the end: less_i = x[i]<y[i] || (x[i]==y[i] && less_{i+1})
	res := w.tt.Bool(len(xb) < len(yb))
	for i := n - 1; i >= 0; i-- {
		res = w.tt.Or(w.tt.Cmp(OpULt, xb[i], yb[i]), w.tt.And(w.tt.Eq(xb[i], yb[i]), res))
	}
	return res
}

func (w *World) shiftAmount(fr *frame, xw int, y *Term) *Term {
	// y is unsigned or a non-negative signed value (Go panics on negative counts;
	// constant and unsigned counts dominate in practice).
	if y.w == xw {
		return y
	}
	if y.w < xw {
		return w.tt.ZExt(y, xw)
	}
	// wider count: saturate
	big := w.tt.Cmp(OpULe, w.tt.BV(y.w, uint64(xw)), y)
	return w.tt.Ite(big, w.tt.BV(xw, uint64(xw)), w.tt.Extract(y, xw-1, 0))
}

// ---------------------------------------------------------------- equality

func (w *World) equals(t types.Type, x, y Value) *Term {
	tt := w.tt
	switch x := x.(type) {
	case *Term:
		return tt.Eq(x, y.(*Term))
	case float64:
		return tt.Bool(x == y.(float64))
	case complex128:
		return tt.Bool(x == y.(complex128))
	case Str:
		return w.strEq(x, y.(Str))
	case *Value:
		return tt.Bool(x == y.(*Value))
	case *Map:
		ym, _ := y.(*Map)
		return tt.Bool(x == ym)
	case *Chan:
		return tt.Bool(x == y.(*Chan))
	case Struct:
		ys := y.(Struct)
		st, _ := t.Underlying().(*types.Struct)
		conj := []*Term{}
		for i := range x {
			var ft types.Type
			if st != nil {
				if st.Field(i).Name() == "_" {
					continue
				}
				ft = st.Field(i).Type()
			}
			conj = append(conj, w.equals(ft, x[i], ys[i]))
		}
		return tt.And(conj...)
	case Array:
		ya := y.(Array)
		var et types.Type
		if at, ok := t.Underlying().(*types.Array); ok {
			et = at.Elem()
		}
		conj := make([]*Term, 0, len(x))
		for i := range x {
			conj = append(conj, w.equals(et, x[i], ya[i]))
		}
		return tt.And(conj...)
	case Iface:
		yi := y.(Iface)
		if x.t == nil || yi.t == nil {
			return tt.Bool(x.t == nil && yi.t == nil)
		}
		if !types.Identical(x.t, yi.t) {
			return tt.F
		}
		if !types.Comparable(x.t) {
			panic(goPanic{v: Iface{t: types.Typ[types.String], v: Str{s: "runtime error: comparing uncomparable type " + x.t.String()}}})
		}
		return w.equals(x.t, x.v, yi.v)
	case []Value:
		// only comparison with nil is legal
		ys := y.([]Value)
		return tt.Bool(x == nil && ys == nil)
	case *ssa.Function:
		switch y := y.(type) {
		case *ssa.Function:
			return tt.Bool(x == y)
		default:
			return tt.Bool(x == nil && y == nil)
		}
	case *Closure:
		if yf, ok := y.(*ssa.Function); ok && yf == nil {
			return tt.F
		}
		yc, _ := y.(*Closure)
		return tt.Bool(x == yc)
	case *ssa.Builtin:
		return tt.F
	case UPtr:
		yu := y.(UPtr)
		return tt.Bool(x.p == yu.p)
	case Opaque:
		return tt.Fresh("opaque_eq", 0)
	case nil:
		return tt.Bool(y == nil)
	}
	panic(fmt.Sprintf("equals: unexpected %T", x))
}

// catEqPlain: a composite (byte-string parts followed by one final abstract
// part) against a plain byte string, aligned left to right; nil = not decidable.
func (w *World) catEqPlain(parts []Str, plain Str) *Term {
	pb := w.strBytes(plain)
	pos := 0
	var conj []*Term
	// an address print followed by a byte string that starts with a character no address print
	// contains (a separator): the print ends at the first such character of the plain string
	if len(parts) >= 2 && parts[0].tok != nil && (parts[0].tok.kind == "ip" || parts[0].tok.kind == "badip") && parts[1].tok == nil && parts[1].cat == nil && !parts[1].opq && parts[1].Len() > 0 {
		if sep, ok := w.strAt(parts[1], 0).Const64(); ok && !strings.ContainsRune("0123456789abcdef:.?", rune(sep)) {
			cut := -1
			for i, t := range pb {
				c, ok := t.Const64()
				if !ok {
					return nil
				}
				if c == sep {
					cut = i
					break
				}
			}
			if cut < 0 {
				return w.tt.F
			}
			head, _ := Str{b: pb[:cut]}.Concrete()
			conj = append(conj, w.tokEq(parts[0], Str{s: head}))
			parts = parts[1:]
			pos = cut
		}
	}
	for i, p := range parts {
		if p.cat != nil || p.opq {
			return nil
		}
		if p.tok != nil {
			if i != len(parts)-1 {
				return nil
			}
			rest := Str{b: pb[pos:]}
			if cs, ok := rest.Concrete(); ok {
				rest = Str{s: cs}
			} else if len(pb[pos:]) == 0 {
				rest = Str{}
			}
			conj = append(conj, w.tokEq(p, rest))
			return w.tt.And(conj...)
		}
		bs := w.strBytes(p)
		if pos+len(bs) > len(pb) {
			return w.tt.F
		}
		for k := range bs {
			conj = append(conj, w.tt.Eq(bs[k], pb[pos+k]))
		}
		pos += len(bs)
	}
	if pos != len(pb) {
		return w.tt.F
	}
	return w.tt.And(conj...)
}

func (w *World) strEq(x, y Str) *Term {
	if x.cat != nil || y.cat != nil {
		xp, yp := x.cat, y.cat
		if xp == nil {
			xp = []Str{x}
		}
		if yp == nil {
			yp = []Str{y}
		}
		if len(xp) != len(yp) {
			// different shapes: a concrete/byte string against a composite with an abstract part
			if (x.cat == nil && x.tok == nil && !x.opq) || (y.cat == nil && y.tok == nil && !y.opq) {
				plain, parts := x, yp
				if x.cat != nil {
					plain, parts = y, xp
				}
				if r := w.catEqPlain(parts, plain); r != nil {
					return r
				}
				panic(pathEnd{"unsupported", "comparison of a composite abstract string with a byte string"})
			}
			panic(pathEnd{"unsupported", "comparison of composite strings of different shape"})
		}
		conj := make([]*Term, len(xp))
		for i := range xp {
			if (xp[i].tok == nil) != (yp[i].tok == nil) {
				panic(pathEnd{"unsupported", "comparison of composite strings of different shape"})
			}
			if xp[i].tok == nil && xp[i].Len() != yp[i].Len() {
				panic(pathEnd{"unsupported", "comparison of composite strings with different part lengths"})
			}
			conj[i] = w.strEq(xp[i], yp[i])
		}
		return w.tt.And(conj...)
	}
	if x.tok != nil || y.tok != nil {
		return w.tokEq(x, y)
	}
	if x.opq || y.opq {
		panic(pathEnd{"unsupported", "comparison of a string with unknown content (formatted from symbolic operands)"})
	}
	if x.Len() != y.Len() {
		return w.tt.F
	}
	if x.b == nil && y.b == nil {
		return w.tt.Bool(x.s == y.s)
	}
	conj := make([]*Term, 0, x.Len())
	for i := 0; i < x.Len(); i++ {
		conj = append(conj, w.tt.Eq(w.strAt(x, i), w.strAt(y, i)))
	}
	return w.tt.And(conj...)
}

// ---------------------------------------------------------------- conversions

func (w *World) conv(fr *frame, tdst, tsrc types.Type, x Value) Value {
	ut_src := tsrc.Underlying()
	ut_dst := tdst.Underlying()
	if o, ok := x.(Opaque); ok {
		if b, ok := ut_dst.(*types.Basic); ok {
			if _, _, isInt := intWidth(b); isInt {
				w.unsupported(fr, "opaque value ("+o.what+") converted to integer")
			}
		}
		return o
	}
	switch ut_dst := ut_dst.(type) {
	case *types.Signature:
		return x
	case *types.Pointer:
		switch x := x.(type) {
		case UPtr:
			if p, ok := x.p.(*Value); ok {
				return p
			}
			if x.p == nil {
				return (*Value)(nil)
			}
			w.unsupported(fr, "unsafe.Pointer to pointer conversion")
		case *Value:
			return x
		}
	case *types.Slice:
		// string -> []byte / []rune
		s := x.(Str)
		if s.tok != nil && s.tok.kind == "proto" {
			return []Value{*s.tok.pt}
		}
		if s.opq || s.tok != nil || s.cat != nil {
			w.unsupported(fr, "bytes of a string with unknown content")
		}
		switch ut_dst.Elem().Underlying().(*types.Basic).Kind() {
		case types.Uint8:
			bs := w.strBytes(s)
			out := make([]Value, len(bs))
			for i, b := range bs {
				out[i] = b
			}
			return out
		case types.Int32:
			cs, ok := s.Concrete()
			if !ok {
				w.unsupported(fr, "symbolic string to []rune")
			}
			var out []Value
			for _, r := range cs {
				out = append(out, w.tt.BV(32, uint64(r)))
			}
			if out == nil {
				out = []Value{}
			}
			return out
		}
	case *types.Basic:
		if ut_dst.Kind() == types.UnsafePointer {
			switch x := x.(type) {
			case *Value:
				if x == nil {
					return UPtr{}
				}
				return UPtr{p: x}
			case UPtr:
				return x
			case *Term: // uintptr -> unsafe.Pointer
				return UPtr{p: x}
			}
		}
		if ut_dst.Info()&types.IsString != 0 {
			switch ut_src := ut_src.(type) {
			case *types.Slice:
				xs := x.([]Value)
				switch ut_src.Elem().Underlying().(*types.Basic).Kind() {
				case types.Uint8:
					if len(xs) == 1 {
						if pt, ok := xs[0].(ProtoTok); ok {
							return Str{tok: &StrTok{kind: "proto", pt: &pt}}
						}
					}
					bs := make([]*Term, len(xs))
					for i, b := range xs {
						bs[i] = b.(*Term)
					}
					return w.mkStr(bs)
				case types.Int32:
					var sb strings.Builder
					for _, r := range xs {
						c, ok := r.(*Term).Const64()
						if !ok {
							w.unsupported(fr, "symbolic []rune to string")
						}
						sb.WriteRune(rune(int32(c)))
					}
					return Str{s: sb.String()}
				}
			case *types.Basic:
				if _, _, ok := intWidth(ut_src); ok {
					c, okc := x.(*Term).Const64()
					if !okc {
						w.unsupported(fr, "symbolic rune to string")
					}
					r := rune(sext64(c, x.(*Term).w))
					if !utf8.ValidRune(r) {
						r = utf8.RuneError
					}
					return Str{s: string(r)}
				}
				if ut_src.Info()&types.IsString != 0 {
					return x
				}
			}
		}
		dw, _, dInt := intWidth(ut_dst)
		switch x := x.(type) {
		case *Term:
			if x.w == 0 {
				break
			}
			sb := basicOf(tsrc)
			_, ssigned, _ := intWidth(sb)
			if dInt {
				return w.tt.Resize(x, dw, ssigned)
			}
			if isFloat(ut_dst) {
				c, ok := x.Const64()
				if !ok {
					var lo, hi int64
					switch {
					case ssigned && x.w == 64:
						lo, hi = math.MinInt64, math.MaxInt64
					case ssigned:
						lo, hi = -(int64(1) << uint(x.w-1)), int64(1)<<uint(x.w-1)-1
					case x.w >= 63:
						return Opaque{"float of symbolic 64-bit unsigned"}
					default:
						lo, hi = 0, int64(1)<<uint(x.w)-1
					}
					f32 := ut_dst.Kind() == types.Float32
					return &FSym{num: w.tt.Resize(x, 64, ssigned), lo: lo, hi: hi, eval: func(n int64) float64 {
						if f32 {
							return float64(float32(n))
						}
						return float64(n)
					}}
				}
				var f float64
				if ssigned {
					f = float64(sext64(c, x.w))
				} else {
					f = float64(c)
				}
				if ut_dst.Kind() == types.Float32 {
					f = float64(float32(f))
				}
				return f
			}
		case float64:
			if dInt {
				_, dsigned, _ := intWidth(ut_dst)
				if math.IsNaN(x) || math.IsInf(x, 0) {
					return w.tt.BV(dw, 1<<63)
				}
				if dsigned {
					return w.tt.BV(dw, uint64(int64(x)))
				}
				return w.tt.BV(dw, uint64(x))
			}
			if isFloat(ut_dst) {
				if ut_dst.Kind() == types.Float32 {
					return float64(float32(x))
				}
				return x
			}
		case UPtr:
			if dInt { // unsafe.Pointer -> uintptr
				w.unsupported(fr, "unsafe.Pointer to uintptr")
			}
		case complex128:
			return x
		}
	}
	w.unsupported(fr, fmt.Sprintf("conversion %v -> %v (%T)", tsrc, tdst, x))
	return nil
}

// ---------------------------------------------------------------- type assertions

func (w *World) typeAssert(fr *frame, instr *ssa.TypeAssert, itf Iface) Value {
	var v Value
	err := ""
	if itf.t == nil {
		err = fmt.Sprintf("interface conversion: interface is nil, not %s", instr.AssertedType)
	} else if idst, ok := instr.AssertedType.Underlying().(*types.Interface); ok {
		v = itf
		if !w.implements(itf.t, idst) {
			err = fmt.Sprintf("interface conversion: %v is not %v: missing method", itf.t, instr.AssertedType)
		}
	} else if types.Identical(itf.t, instr.AssertedType) {
		v = itf.v
	} else {
		err = fmt.Sprintf("interface conversion: interface is %s, not %s", itf.t, instr.AssertedType)
	}
	if err != "" {
		if !instr.CommaOk {
			w.rtPanic(fr, err)
		}
		return Tuple{w.zero(instr.AssertedType), w.tt.F}
	}
	if instr.CommaOk {
		return Tuple{v, w.tt.T}
	}
	return v
}

func (w *World) implements(t types.Type, iface *types.Interface) bool {
	key := implKey{t, iface}
	if v, ok := w.pi.implCache.Load(key); ok {
		return v.(bool)
	}
	r := types.Implements(t, iface)
	w.pi.implCache.Store(key, r)
	return r
}

type implKey struct {
	t types.Type
	i *types.Interface
}

// ---------------------------------------------------------------- maps

// mapFind returns the index of key k (forking on symbolic equality) or -1.
func (w *World) mapFind(fr *frame, m *Map, k Value) int {
	ents := m.entries()
	for i := range ents {
		eq := w.equals(m.kt, ents[i].k, k)
		if eq == w.tt.T {
			return i
		}
		if eq == w.tt.F {
			continue
		}
		if hk, ck := w.hashDerivedOrConst(ents[i].k); hk || ck {
			if hk2, ck2 := w.hashDerivedOrConst(k); (hk && (hk2 || ck2)) || (ck && hk2) {
				w.res.Cuts["hash-derived map keys: collisions between differently derived values excluded"]++
				w.assumeNoCheck(w.tt.Not(eq))
				continue
			}
		}
		if false {
			// random-oracle idealisation: two values derived from hash/cipher outputs (no free
			// input bits outside hash arguments) are equal only if derived identically
			w.res.Cuts["hash-derived map keys: collisions between differently derived values excluded"]++
			w.assumeNoCheck(w.tt.Not(eq))
			continue
		}
		if w.decideBool(eq, "mapkey@"+w.posLabel(fr, fr.curInstr)) {
			return i
		}
	}
	return -1
}

func (w *World) lookup(fr *frame, instr *ssa.Lookup, x, idx Value) Value {
	switch x := x.(type) {
	case *Map:
		var v Value
		ok := false
		if x != nil {
			if i := w.mapFind(fr, x, idx); i >= 0 {
				v = copyVal(x.entries()[i].v)
				ok = true
			}
		}
		if !ok {
			v = w.zero(instr.X.Type().Underlying().(*types.Map).Elem())
		}
		if instr.CommaOk {
			return Tuple{v, w.tt.Bool(ok)}
		}
		return v
	case Str:
		if t, ok := idx.(*Term); ok && !t.IsConst() && x.Len() <= 256 {
			return w.symIndexStr(fr, x, t, instr.Index.Type())
		}
		i := w.index(fr, idx, instr.Index.Type(), x.Len())
		return w.strAt(x, i)
	}
	panic(fmt.Sprintf("lookup: unexpected %T", x))
}

func (w *World) mapUpdate(fr *frame, m *Map, k, v Value) {
	i := w.mapFind(fr, m, k)
	old := m.entries()
	var nw []mapEnt
	if i >= 0 {
		nw = make([]mapEnt, len(old))
		copy(nw, old)
		nw[i].v = copyVal(v)
	} else {
		nw = make([]mapEnt, len(old)+1)
		copy(nw, old)
		nw[len(old)] = mapEnt{copyVal(k), copyVal(v)}
	}
	w.storeLeaf(&m.ents, nw)
}

func (w *World) mapDelete(fr *frame, m *Map, k Value) {
	if m == nil {
		return
	}
	i := w.mapFind(fr, m, k)
	if i < 0 {
		return
	}
	old := m.entries()
	nw := make([]mapEnt, 0, len(old)-1)
	nw = append(nw, old[:i]...)
	nw = append(nw, old[i+1:]...)
	w.storeLeaf(&m.ents, nw)
}

// ---------------------------------------------------------------- range

func (w *World) rangeIter(fr *frame, x Value, t types.Type) *rangeIter {
	switch x := x.(type) {
	case *Map:
		// snapshot keys in insertion order; an entry deleted meanwhile is skipped
		var keys []Value
		for _, e := range x.entries() {
			keys = append(keys, e.k)
		}
		mt := t.Underlying().(*types.Map)
		i := 0
		if w.mapOrderNondet() && len(keys) > 1 {
			rot := w.chooseN(len(keys), "maporder")
			w.res.Chooses["maporder"]++
			keys = append(append([]Value{}, keys[rot:]...), keys[:rot]...)
		}
		return &rangeIter{next: func() Tuple {
			for i < len(keys) {
				k := keys[i]
				i++
				// still present? (keys are exact values stored in the map: identical terms)
				for _, e := range x.entries() {
					if w.equals(mt.Key(), e.k, k) == w.tt.T {
						return Tuple{w.tt.T, copyVal(k), copyVal(e.v)}
					}
				}
			}
			return Tuple{w.tt.F, w.zero(mt.Key()), w.zero(mt.Elem())}
		}}
	case Str:
		s, ok := x.Concrete()
		if !ok {
			// iterate bytes as runes when all bytes are ASCII-constrained is unknown: unsupported
			w.unsupported(fr, "range over symbolic string")
		}
		off := 0
		return &rangeIter{next: func() Tuple {
			if off >= len(s) {
				return Tuple{w.tt.F, w.tt.BV(64, 0), w.tt.BV(32, 0)}
			}
			r, sz := utf8.DecodeRuneInString(s[off:])
			o := off
			off += sz
			return Tuple{w.tt.T, w.tt.BV(64, uint64(o)), w.tt.BV(32, uint64(r))}
		}}
	}
	panic(fmt.Sprintf("range: unexpected %T", x))
}

func (w *World) mapOrderNondet() bool {
	v, ok := w.ext["maporder"]
	return ok && v == w.tt.T
}

// ---------------------------------------------------------------- builtins

func (w *World) callBuiltin(fr *frame, fn *ssa.Builtin, args []Value) Value {
	tt := w.tt
	switch fn.Name() {
	case "append":
		if len(args) == 1 {
			return args[0]
		}
		dst := args[0].([]Value)
		var src []Value
		switch s := args[1].(type) {
		case Str:
			for _, b := range w.strBytes(s) {
				src = append(src, b)
			}
		case []Value:
			src = s
		}
		if len(src) == 0 {
			return dst
		}
		n := len(dst)
		if n+len(src) <= cap(dst) {
			out := dst[:n+len(src)]
			for i, v := range src {
				w.store(&out[n+i], copyVal(v))
			}
			return out
		}
		ncap := cap(dst) * 2
		if ncap < n+len(src) {
			ncap = n + len(src)
		}
		if ncap < 8 {
			ncap = 8
		}
		out := make([]Value, n+len(src), ncap)
		for i := 0; i < n; i++ {
			out[i] = copyVal(dst[i])
		}
		for i, v := range src {
			out[n+i] = copyVal(v)
		}
		// spare capacity holds zero values of the element type
		if ncap > n+len(src) && len(out) > 0 {
			full := out[:ncap]
			for i := n + len(src); i < ncap; i++ {
				full[i] = w.zeroLike(out[0]) // a distinct zero per slot: aggregates are stored in place
			}
		}
		return out

	case "copy":
		dst := args[0].([]Value)
		var src []Value
		switch s := args[1].(type) {
		case Str:
			for _, b := range w.strBytes(s) {
				src = append(src, b)
			}
		case []Value:
			src = s
		}
		n := len(dst)
		if len(src) < n {
			n = len(src)
		}
		if n > 0 && &dst[0] != &src[0] {
			tmp := make([]Value, n)
			for i := 0; i < n; i++ {
				tmp[i] = copyVal(src[i])
			}
			for i := 0; i < n; i++ {
				w.store(&dst[i], tmp[i])
			}
		}
		return tt.BV(64, uint64(n))

	case "close":
		w.chanClose(fr, args[0].(*Chan))
		return nil

	case "delete":
		w.mapDelete(fr, args[0].(*Map), args[1])
		return nil

	case "print", "println":
		return nil

	case "len":
		switch x := args[0].(type) {
		case Str:
			if x.opq || x.tok != nil || x.cat != nil {
				w.unsupported(fr, "len of a string with unknown content")
			}
			return tt.BV(64, uint64(x.Len()))
		case Array:
			return tt.BV(64, uint64(len(x)))
		case *Value:
			if x == nil {
				// len of nil *array is the array length (static); SSA folds this normally
				return tt.BV(64, 0)
			}
			return tt.BV(64, uint64(len((*x).(Array))))
		case []Value:
			return tt.BV(64, uint64(len(x)))
		case *Map:
			return tt.BV(64, uint64(len(x.entries())))
		case *Chan:
			return tt.BV(64, uint64(w.chanLen(x)))
		}
	case "cap":
		switch x := args[0].(type) {
		case Array:
			return tt.BV(64, uint64(len(x)))
		case *Value:
			return tt.BV(64, uint64(len((*x).(Array))))
		case []Value:
			return tt.BV(64, uint64(cap(x)))
		case *Chan:
			if x == nil {
				return tt.BV(64, 0)
			}
			return tt.BV(64, uint64(x.cap))
		}
	case "min", "max":
		switch x := args[0].(type) {
		case *Term:
			r := x
			for _, a := range args[1:] {
				y := a.(*Term)
				// signedness unknown here: derive from the builtin's signature
				signed := true
				if sig, ok := fn.Type().(*types.Signature); ok && sig.Params().Len() > 0 {
					if b := basicOf(sig.Params().At(0).Type()); b != nil {
						_, signed, _ = intWidth(b)
					}
				}
				op := OpULt
				if signed {
					op = OpSLt
				}
				var c *Term
				if fn.Name() == "min" {
					c = tt.Cmp(op, y, r)
				} else {
					c = tt.Cmp(op, r, y)
				}
				r = tt.Ite(c, y, r)
			}
			return r
		case float64:
			r := x
			for _, a := range args[1:] {
				if fn.Name() == "min" {
					r = math.Min(r, a.(float64))
				} else {
					r = math.Max(r, a.(float64))
				}
			}
			return r
		}
	case "clear":
		switch x := args[0].(type) {
		case *Map:
			if x != nil {
				w.storeLeaf(&x.ents, []mapEnt(nil))
			}
			return nil
		case []Value:
			for i := range x {
				w.store(&x[i], w.zeroLike(x[i]))
			}
			return nil
		}
	case "panic":
		panic(goPanic{v: args[0], where: w.where(fr)})
	case "recover":
		return w.doRecover(fr)
	case "ssa:wrapnilchk":
		recv := args[0]
		if p, ok := recv.(*Value); ok && p == nil {
			w.rtPanic(fr, fmt.Sprintf("value method %s.%s called using nil pointer", w.show(args[1]), w.show(args[2])))
		}
		return recv
	case "ssa:deferstack":
		return &fr.defers
	case "real", "imag", "complex":
		w.unsupported(fr, "complex numbers")
	}
	w.unsupported(fr, fmt.Sprintf("builtin %s(%T)", fn.Name(), args))
	return nil
}

func (w *World) zeroLike(v Value) Value {
	switch v := v.(type) {
	case *Term:
		if v.w == 0 {
			return w.tt.F
		}
		return w.tt.BV(v.w, 0)
	case float64:
		return float64(0)
	case Str:
		return Str{}
	case *Value:
		return (*Value)(nil)
	case Struct:
		n := make(Struct, len(v))
		for i := range v {
			n[i] = w.zeroLike(v[i])
		}
		return n
	case Array:
		n := make(Array, len(v))
		for i := range v {
			n[i] = w.zeroLike(v[i])
		}
		return n
	case []Value:
		return []Value(nil)
	case Iface:
		return Iface{}
	case *Map:
		return (*Map)(nil)
	case *Chan:
		return (*Chan)(nil)
	case *ssa.Function, *Closure:
		return (*ssa.Function)(nil)
	}
	return v
}

// symIndexStr reads s[idx] for a symbolic index as an ite-chain (after a forked
// bounds check), instead of forking over every index value.
func (w *World) symIndexStr(fr *frame, s Str, idx *Term, it types.Type) *Term {
	signed := true
	if b := basicOf(it); b != nil {
		_, signed, _ = intWidth(b)
	}
	i64 := w.tt.Resize(idx, 64, signed)
	n := s.Len()
	inb := w.tt.Cmp(OpULt, i64, w.tt.BV(64, uint64(n)))
	if !w.decideBool(inb, "bounds@"+w.posLabel(fr, fr.curInstr)) {
		w.rtPanic(fr, fmt.Sprintf("index out of range [symbolic] with length %d", n))
	}
	res := w.strAt(s, n-1)
	for k := n - 2; k >= 0; k-- {
		res = w.tt.Ite(w.tt.Eq(i64, w.tt.BV(64, uint64(k))), w.strAt(s, k), res)
	}
	return res
}

// hashDerived: v is a string/bytes value every bit of which comes out of an
// uninterpreted hash/cipher function (free variables occur only inside UF
// arguments), and at least one UF is involved.
// hashDerivedOrConst classifies a map key: every bit from hash/cipher/random outputs
// (hash), or a constant (konst).
func (w *World) hashDerivedOrConst(v Value) (hash, konst bool) {
	var bits []*Term
	switch x := v.(type) {
	case Str:
		if x.tok != nil || x.opq || x.cat != nil {
			return false, false
		}
		if x.b == nil {
			return false, true
		}
		bits = x.b
	case Array:
		for _, e := range x {
			t, ok := e.(*Term)
			if !ok {
				return false, false
			}
			bits = append(bits, t)
		}
	default:
		return false, false
	}
	any := false
	for _, b := range bits {
		pure, has := w.ufOnly(b)
		if !pure {
			return false, false
		}
		any = any || has
	}
	return any, !any
}

func (w *World) hashDerived(v Value) bool {
	s, ok := v.(Str)
	if !ok || s.tok != nil || s.opq || s.cat != nil || s.b == nil {
		return false
	}
	any := false
	for _, b := range s.b {
		pure, has := w.ufOnly(b)
		if !pure {
			return false
		}
		any = any || has
	}
	return any
}

func (w *World) ufOnly(t *Term) (pure bool, hasUF bool) {
	if w.ufMemo == nil {
		w.ufMemo = map[uint32][2]bool{}
	}
	if r, ok := w.ufMemo[t.id]; ok {
		return r[0], r[1]
	}
	pure, hasUF = true, false
	switch t.op {
	case OpVar:
		pure = false
	case OpUF:
		hasUF = true
	default:
		for _, a := range t.a {
			p, h := w.ufOnly(a)
			pure = pure && p
			hasUF = hasUF || h
		}
	}
	w.ufMemo[t.id] = [2]bool{pure, hasUF}
	return
}

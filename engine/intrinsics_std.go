package main

// Models of the standard library pieces that cannot be interpreted from SSA
// (assembly, unsafe, reflection, runtime) or that are environment (clock,
// randomness, logging).

import (
	"errors"
	"fmt"
	"go/types"
	"math"
	"strings"

	"golang.org/x/tools/go/ssa"
)

func recvStruct(fn *ssa.Function) *types.Struct {
	t := fn.Signature.Recv().Type()
	if p, ok := t.Underlying().(*types.Pointer); ok {
		t = p.Elem()
	}
	st, _ := t.Underlying().(*types.Struct)
	return st
}

func fieldIndex(st *types.Struct, name string) int {
	for i := 0; i < st.NumFields(); i++ {
		if st.Field(i).Name() == name {
			return i
		}
	}
	panic("no field " + name)
}

func (w *World) field(p *Value, st *types.Struct, name string) *Value {
	return &(*p).(Struct)[fieldIndex(st, name)]
}

func (w *World) nilCheck(fr *frame, p *Value) {
	if p == nil {
		w.rtPanic(fr, "invalid memory address or nil pointer dereference")
	}
}

// ---------------------------------------------------------------- fmt

type fmtPiece struct {
	lit  string
	verb string // full verb spec e.g. "%02x"; "" for literal
	c    byte
}

func parseFormat(f string) []fmtPiece {
	var out []fmtPiece
	i := 0
	for i < len(f) {
		j := strings.IndexByte(f[i:], '%')
		if j < 0 {
			out = append(out, fmtPiece{lit: f[i:]})
			break
		}
		if j > 0 {
			out = append(out, fmtPiece{lit: f[i : i+j]})
		}
		i += j
		k := i + 1
		for k < len(f) && strings.IndexByte("+-# 0123456789.*[]", f[k]) >= 0 {
			k++
		}
		if k >= len(f) {
			out = append(out, fmtPiece{lit: f[i:]})
			break
		}
		if f[k] == '%' {
			out = append(out, fmtPiece{lit: "%"})
		} else {
			out = append(out, fmtPiece{verb: f[i : k+1], c: f[k]})
		}
		i = k + 1
	}
	return out
}

type goError struct{ s string }

func (e goError) Error() string { return e.s }

type goStringer struct{ s string }

func (e goStringer) String() string { return e.s }

// toGo converts an interface-typed argument to a native Go value for fmt.
// ok=false: content not expressible (symbolic or structured) -> opaque.
func (w *World) toGo(fr *frame, a Value, depth int) (v interface{}, taint uint8, ok bool) {
	itf, isI := a.(Iface)
	if !isI {
		return nil, 0, false
	}
	if itf.t == nil {
		return nil, 0, true
	}
	// error / Stringer
	if depth < 3 {
		for _, mname := range []string{"Error", "String"} {
			if m := w.lookupMethod(itf.t, nil, mname); m != nil && m.Signature.Params().Len() == 0 && m.Signature.Results().Len() == 1 {
				if b, isB := m.Signature.Results().At(0).Type().Underlying().(*types.Basic); !isB || b.Info()&types.IsString == 0 {
					continue
				}
				// nil pointer receivers: fmt prints <nil>
				if p, isP := itf.v.(*Value); isP && p == nil {
					return "<nil>", 0, true
				}
				r := w.call(fr.t, fr, m, []Value{itf.v}, nil)
				s := r.(Str)
				cs, okc := s.Concrete()
				if !okc {
					return nil, s.taint, false
				}
				if mname == "Error" {
					return goError{cs}, s.taint, true
				}
				return goStringer{cs}, s.taint, true
			}
		}
	}
	switch x := itf.v.(type) {
	case *Term:
		c, isC := x.Const64()
		if x.w == 0 {
			if !x.IsConst() {
				return nil, 0, false
			}
			return x == w.tt.T, 0, true
		}
		if !isC {
			return nil, 0, false
		}
		b := basicOf(itf.t)
		if b == nil {
			return nil, 0, false
		}
		switch b.Kind() {
		case types.Int:
			return int(int64(c)), 0, true
		case types.Int8:
			return int8(c), 0, true
		case types.Int16:
			return int16(c), 0, true
		case types.Int32:
			return int32(c), 0, true
		case types.Int64:
			return int64(c), 0, true
		case types.Uint:
			return uint(c), 0, true
		case types.Uint8:
			return uint8(c), 0, true
		case types.Uint16:
			return uint16(c), 0, true
		case types.Uint32:
			return uint32(c), 0, true
		case types.Uint64:
			return uint64(c), 0, true
		case types.Uintptr:
			return uintptr(c), 0, true
		}
	case Str:
		cs, okc := x.Concrete()
		if !okc {
			return nil, x.taint, false
		}
		return cs, x.taint, true
	case float64:
		return x, 0, true
	case []Value:
		if sl, isS := itf.t.Underlying().(*types.Slice); isS {
			if b := basicOf(sl.Elem()); b != nil && b.Kind() == types.Uint8 {
				ts := make([]*Term, len(x))
				for i := range x {
					ts[i] = x[i].(*Term)
				}
				if cb, okb := w.concBytes(ts); okb {
					return cb, 0, true
				}
			}
		}
	case *Value:
		if x == nil {
			return nil, 0, false
		}
	}
	return nil, 0, false
}

func (w *World) hexDigit(n *Term, upper bool) *Term {
	// n: 4-bit term -> ASCII byte
	n8 := w.tt.ZExt(n, 8)
	a := uint64('a')
	if upper {
		a = 'A'
	}
	return w.tt.Ite(w.tt.Cmp(OpULt, n8, w.tt.BV(8, 10)),
		w.tt.Bin(OpAdd, n8, w.tt.BV(8, '0')),
		w.tt.Bin(OpAdd, n8, w.tt.BV(8, a-10)))
}

// sprintf formats like fmt.Sprintf; the result may be symbolic or opaque.
func (w *World) sprintf(fr *frame, format string, args []Value, errorf bool) (Str, []int) {
	pieces := parseFormat(format)
	var out []*Term
	var taint uint8
	opaque := false
	argi := 0
	var wrapped []int
	for _, p := range pieces {
		if p.verb == "" {
			for i := 0; i < len(p.lit); i++ {
				out = append(out, w.tt.BV(8, uint64(p.lit[i])))
			}
			continue
		}
		if strings.ContainsAny(p.verb, "*[") {
			opaque = true
			argi++
			continue
		}
		if argi >= len(args) {
			s := "%!" + string(p.c) + "(MISSING)"
			for i := 0; i < len(s); i++ {
				out = append(out, w.tt.BV(8, uint64(s[i])))
			}
			continue
		}
		a := args[argi]
		verb := p.verb
		if p.c == 'w' {
			if errorf {
				wrapped = append(wrapped, argi)
			}
			verb = verb[:len(verb)-1] + "v"
		}
		argi++
		// symbolic byte as %02x / %02X
		if itf, ok := a.(Iface); ok && (verb == "%02x" || verb == "%02X") {
			if t, ok := itf.v.(*Term); ok && t.w == 8 && !t.IsConst() {
				out = append(out, w.hexDigit(w.tt.Extract(t, 7, 4), verb == "%02X"), w.hexDigit(w.tt.Extract(t, 3, 0), verb == "%02X"))
				continue
			}
		}
		g, tn, ok := w.toGo(fr, a, 0)
		taint |= tn
		if !ok {
			opaque = true
			continue
		}
		s := fmt.Sprintf(verb, g)
		for i := 0; i < len(s); i++ {
			out = append(out, w.tt.BV(8, uint64(s[i])))
		}
	}
	if argi < len(args) {
		opaque = opaque || false
		s := "%!(EXTRA)"
		for i := 0; i < len(s); i++ {
			out = append(out, w.tt.BV(8, uint64(s[i])))
		}
		for _, a := range args[argi:] {
			_, tn, _ := w.toGo(fr, a, 0)
			taint |= tn
		}
	}
	if opaque {
		return Str{opq: true, taint: taint}, wrapped
	}
	r := w.mkStr(out)
	r.taint = taint
	return r, wrapped
}

// sprint formats like fmt.Sprint / Sprintln.
func (w *World) sprint(fr *frame, args []Value, ln bool) Str {
	var sb strings.Builder
	var taint uint8
	opaque := false
	prevString := true
	for i, a := range args {
		g, tn, ok := w.toGo(fr, a, 0)
		taint |= tn
		if !ok {
			opaque = true
			continue
		}
		_, isStr := g.(string)
		if i > 0 && (ln || (!isStr && !prevString)) {
			sb.WriteByte(' ')
		}
		prevString = isStr
		sb.WriteString(fmt.Sprint(g))
	}
	if ln {
		sb.WriteByte('\n')
	}
	if opaque {
		return Str{opq: true, taint: taint}
	}
	return Str{s: sb.String(), taint: taint}
}

func (w *World) writeTo(fr *frame, wr Value, s Str) {
	itf := wr.(Iface)
	if itf.t == nil {
		w.rtPanic(fr, "invalid memory address or nil pointer dereference (nil io.Writer)")
	}
	m := w.lookupMethod(itf.t, nil, "Write")
	if m == nil {
		w.unsupported(fr, "writer without Write method")
	}
	if s.opq {
		// content unknown: hand the writer a tainted/opaque marker only if it is a sink model
		w.unsupported(fr, "formatted output with unknown content written to an io.Writer")
	}
	bs := w.byteSlice(w.strBytes(s))
	w.call(fr.t, fr, m, []Value{itf.v, bs}, nil)
}

// LogEvent is one call on a logging sink.
type LogEvent struct {
	sink  string
	text  Str
	where string
}

func (w *World) logSink(fr *frame, sink string, s Str) {
	// kept per path in ext (reset on every path)
	var evs []LogEvent
	if v, ok := w.ext["logs"]; ok {
		evs = v.([]LogEvent)
	}
	evs = append(evs[:len(evs):len(evs)], LogEvent{sink: sink, text: s, where: w.posLabel(fr, fr.curInstr)})
	w.ext["logs"] = evs
}

func init() {
	reg("fmt.Sprintf", func(w *World, t *Thread, fr *frame, fn *ssa.Function, args []Value) Value {
		s, _ := w.sprintf(fr, w.concStr(fr, args[0], "format"), args[1].([]Value), false)
		return s
	})
	reg("fmt.Errorf", func(w *World, t *Thread, fr *frame, fn *ssa.Function, args []Value) Value {
		va := args[1].([]Value)
		s, wrapped := w.sprintf(fr, w.concStr(fr, args[0], "format"), va, true)
		if len(wrapped) == 1 {
			if e, ok := va[wrapped[0]].(Iface); ok && e.t != nil {
				pkg := w.prog.ImportedPackage("fmt")
				wt := pkg.Type("wrapError").Object().Type()
				var cell Value = Struct{s, e}
				return Iface{t: types.NewPointer(wt), v: &cell}
			}
		}
		if len(wrapped) > 1 {
			w.unsupported(fr, "fmt.Errorf with several %w")
		}
		e := w.mkError("")
		cell := e.(Iface).v.(*Value)
		(*cell).(Struct)[0] = s
		return e
	})
	reg("fmt.Sprint", func(w *World, t *Thread, fr *frame, fn *ssa.Function, args []Value) Value {
		return w.sprint(fr, args[0].([]Value), false)
	})
	reg("fmt.Sprintln", func(w *World, t *Thread, fr *frame, fn *ssa.Function, args []Value) Value {
		return w.sprint(fr, args[0].([]Value), true)
	})
	reg("fmt.Fprintf", func(w *World, t *Thread, fr *frame, fn *ssa.Function, args []Value) Value {
		s, _ := w.sprintf(fr, w.concStr(fr, args[1], "format"), args[2].([]Value), false)
		w.writeTo(fr, args[0], s)
		return Tuple{w.tt.BV(64, uint64(s.Len())), w.nilError()}
	})
	reg("fmt.Fprint", func(w *World, t *Thread, fr *frame, fn *ssa.Function, args []Value) Value {
		s := w.sprint(fr, args[1].([]Value), false)
		w.writeTo(fr, args[0], s)
		return Tuple{w.tt.BV(64, uint64(s.Len())), w.nilError()}
	})
	reg("fmt.Fprintln", func(w *World, t *Thread, fr *frame, fn *ssa.Function, args []Value) Value {
		s := w.sprint(fr, args[1].([]Value), true)
		w.writeTo(fr, args[0], s)
		return Tuple{w.tt.BV(64, uint64(s.Len())), w.nilError()}
	})
	stdout := func(kind int) intrinsic {
		return func(w *World, t *Thread, fr *frame, fn *ssa.Function, args []Value) Value {
			var s Str
			switch kind {
			case 0:
				s, _ = w.sprintf(fr, w.concStr(fr, args[0], "format"), args[1].([]Value), false)
			case 1:
				s = w.sprint(fr, args[0].([]Value), false)
			case 2:
				s = w.sprint(fr, args[0].([]Value), true)
			}
			w.logSink(fr, "stdout", s)
			return Tuple{w.tt.BV(64, 0), w.nilError()}
		}
	}
	reg("fmt.Printf", stdout(0))
	reg("fmt.Print", stdout(1))
	reg("fmt.Println", stdout(2))

	// ---- standard log package: every output function is a sink
	logf := func(kind int, off int, sink string) intrinsic {
		return func(w *World, t *Thread, fr *frame, fn *ssa.Function, args []Value) Value {
			var s Str
			switch kind {
			case 0:
				s, _ = w.sprintf(fr, w.concStr(fr, args[off], "format"), args[off+1].([]Value), false)
			case 1:
				s = w.sprint(fr, args[off].([]Value), false)
			case 2:
				s = w.sprint(fr, args[off].([]Value), true)
			}
			w.logSink(fr, sink, s)
			if strings.Contains(fn.Name(), "Fatal") {
				panic(pathEnd{"exit", "log.Fatal"})
			}
			if strings.Contains(fn.Name(), "Panic") {
				panic(goPanic{v: Iface{t: types.Typ[types.String], v: s}, where: w.where(fr)})
			}
			return nil
		}
	}
	for _, n := range []string{"Printf", "Fatalf", "Panicf"} {
		reg("log."+n, logf(0, 0, "log"))
		reg("(*log.Logger)."+n, logf(0, 1, "log"))
	}
	for _, n := range []string{"Print", "Fatal", "Panic"} {
		reg("log."+n, logf(1, 0, "log"))
		reg("(*log.Logger)."+n, logf(1, 1, "log"))
	}
	for _, n := range []string{"Println", "Fatalln", "Panicln"} {
		reg("log."+n, logf(2, 0, "log"))
		reg("(*log.Logger)."+n, logf(2, 1, "log"))
	}
	reg("log.Output", func(w *World, t *Thread, fr *frame, fn *ssa.Function, args []Value) Value {
		w.logSink(fr, "log", args[1].(Str))
		return w.nilError()
	})
	reg("(*log.Logger).Output", func(w *World, t *Thread, fr *frame, fn *ssa.Function, args []Value) Value {
		w.logSink(fr, "log", args[2].(Str))
		return w.nilError()
	})
	nop := func(w *World, t *Thread, fr *frame, fn *ssa.Function, args []Value) Value {
		return w.zeroResults(fn)
	}
	for _, n := range []string{"log.SetFlags", "log.SetOutput", "log.SetPrefix", "(*log.Logger).SetFlags", "(*log.Logger).SetOutput", "(*log.Logger).SetPrefix"} {
		reg(n, nop)
	}
	reg("log.New", func(w *World, t *Thread, fr *frame, fn *ssa.Function, args []Value) Value {
		lt := fn.Signature.Results().At(0).Type()
		cell := new(Value)
		*cell = w.zero(deref(lt))
		return cell
	})
	reg("log.Flags", func(w *World, t *Thread, fr *frame, fn *ssa.Function, args []Value) Value { return w.tt.BV(64, 0) })
	reg("log.Prefix", func(w *World, t *Thread, fr *frame, fn *ssa.Function, args []Value) Value { return Str{} })
	reg("(*log.Logger).Flags", func(w *World, t *Thread, fr *frame, fn *ssa.Function, args []Value) Value { return w.tt.BV(64, 0) })
	reg("(*log.Logger).Prefix", func(w *World, t *Thread, fr *frame, fn *ssa.Function, args []Value) Value { return Str{} })

	// ---- internal/bytealg (assembly)
	reg("internal/bytealg.IndexByte", func(w *World, t *Thread, fr *frame, fn *ssa.Function, args []Value) Value {
		return w.indexByte(fr, w.bytesOf(args[0]), args[1].(*Term))
	})
	reg("internal/bytealg.IndexByteString", func(w *World, t *Thread, fr *frame, fn *ssa.Function, args []Value) Value {
		return w.indexByte(fr, w.strBytes(args[0].(Str)), args[1].(*Term))
	})
	reg("internal/bytealg.Equal", func(w *World, t *Thread, fr *frame, fn *ssa.Function, args []Value) Value {
		return w.strEq(w.mkStr(w.bytesOf(args[0])), w.mkStr(w.bytesOf(args[1])))
	})
	reg("internal/bytealg.Count", func(w *World, t *Thread, fr *frame, fn *ssa.Function, args []Value) Value {
		return w.countByte(fr, w.bytesOf(args[0]), args[1].(*Term))
	})
	reg("internal/bytealg.CountString", func(w *World, t *Thread, fr *frame, fn *ssa.Function, args []Value) Value {
		return w.countByte(fr, w.strBytes(args[0].(Str)), args[1].(*Term))
	})
	reg("internal/bytealg.Compare", func(w *World, t *Thread, fr *frame, fn *ssa.Function, args []Value) Value {
		a, b := w.mkStr(w.bytesOf(args[0])), w.mkStr(w.bytesOf(args[1]))
		return w.compareStr(fr, a, b)
	})
	reg("internal/bytealg.MakeNoZero", func(w *World, t *Thread, fr *frame, fn *ssa.Function, args []Value) Value {
		n := int(w.concreteInt(fr, args[0], "MakeNoZero"))
		return w.makeSlice(types.Typ[types.Uint8], n, n)
	})
	indexStr := func(w *World, t *Thread, fr *frame, fn *ssa.Function, args []Value) Value {
		var a, b []*Term
		if s, ok := args[0].(Str); ok {
			a, b = w.strBytes(s), w.strBytes(args[1].(Str))
		} else {
			a, b = w.bytesOf(args[0]), w.bytesOf(args[1])
		}
		ca, ok1 := w.concBytes(a)
		cb, ok2 := w.concBytes(b)
		if ok1 && ok2 {
			return w.tt.BV(64, uint64(int64(strings.Index(string(ca), string(cb)))))
		}
		for i := 0; i+len(b) <= len(a); i++ {
			eq := w.strEq(w.mkStr(a[i:i+len(b)]), w.mkStr(b))
			if w.decideBool(eq, "index@"+w.posLabel(fr, fr.curInstr)) {
				return w.tt.BV(64, uint64(i))
			}
		}
		return w.tt.BV(64, ^uint64(0))
	}
	reg("internal/bytealg.Index", indexStr)
	reg("internal/bytealg.IndexString", indexStr)
	reg("strings.Index", indexStr)
	reg("bytes.Index", indexStr)
	reg("internal/stringslite.Index", indexStr)
	reg("strings.Compare", func(w *World, t *Thread, fr *frame, fn *ssa.Function, args []Value) Value {
		return w.compareStr(fr, args[0].(Str), args[1].(Str))
	})
	reg("runtime.cmpstring", func(w *World, t *Thread, fr *frame, fn *ssa.Function, args []Value) Value {
		return w.compareStr(fr, args[0].(Str), args[1].(Str))
	})

	// ---- strings.Builder (unsafe inside)
	reg("(*strings.Builder).String", func(w *World, t *Thread, fr *frame, fn *ssa.Function, args []Value) Value {
		p := args[0].(*Value)
		w.nilCheck(fr, p)
		buf := *w.field(p, recvStruct(fn), "buf")
		return w.mkStr(w.bytesOf(buf))
	})
	reg("(*strings.Builder).copyCheck", nop)
	reg("internal/stringslite.Clone", func(w *World, t *Thread, fr *frame, fn *ssa.Function, args []Value) Value { return args[0] })
	reg("strconv.cloneString", func(w *World, t *Thread, fr *frame, fn *ssa.Function, args []Value) Value { return args[0] })
	reg("strings.Clone", func(w *World, t *Thread, fr *frame, fn *ssa.Function, args []Value) Value { return args[0] })
	reg("unique.Make", nil)
	delete(intrinsics, "unique.Make")

	// ---- errors
	reg("errors.Is", func(w *World, t *Thread, fr *frame, fn *ssa.Function, args []Value) Value {
		return w.tt.Bool(w.errorsIs(fr, args[0].(Iface), args[1].(Iface), 0))
	})
	reg("errors.As", func(w *World, t *Thread, fr *frame, fn *ssa.Function, args []Value) Value {
		return w.tt.Bool(w.errorsAs(fr, args[0].(Iface), args[1].(Iface), 0))
	})

	// ---- runtime bits
	reg("runtime.Gosched", func(w *World, t *Thread, fr *frame, fn *ssa.Function, args []Value) Value {
		w.yield(t, "Gosched")
		return nil
	})
	reg("runtime.SetFinalizer", nop)
	reg("runtime.KeepAlive", nop)
	reg("runtime.GC", nop)
	reg("runtime.NumGoroutine", func(w *World, t *Thread, fr *frame, fn *ssa.Function, args []Value) Value {
		n := 0
		for _, th := range w.threads {
			if !th.done {
				n++
			}
		}
		return w.tt.BV(64, uint64(n))
	})
	reg("os.Exit", func(w *World, t *Thread, fr *frame, fn *ssa.Function, args []Value) Value {
		panic(pathEnd{"exit", "os.Exit"})
	})
	reg("os.Getenv", func(w *World, t *Thread, fr *frame, fn *ssa.Function, args []Value) Value {
		k := w.concStr(fr, args[0], "env key")
		if v, ok := w.ext["env:"+k]; ok {
			return v
		}
		return Str{}
	})
}

func (w *World) indexByte(fr *frame, b []*Term, c *Term) Value {
	for i, x := range b {
		if w.decideBool(w.tt.Eq(x, c), "indexbyte@"+w.posLabel(fr, fr.curInstr)) {
			return w.tt.BV(64, uint64(i))
		}
	}
	return w.tt.BV(64, ^uint64(0))
}

func (w *World) countByte(fr *frame, b []*Term, c *Term) Value {
	n := w.tt.BV(64, 0)
	for _, x := range b {
		n = w.tt.Bin(OpAdd, n, w.tt.Ite(w.tt.Eq(x, c), w.tt.BV(64, 1), w.tt.BV(64, 0)))
	}
	return n
}

func (w *World) compareStr(fr *frame, a, b Str) Value {
	if w.decideBool(w.strEq2(a, b), "cmp@"+w.posLabel(fr, fr.curInstr)) {
		return w.tt.BV(64, 0)
	}
	if w.decideBool(w.strLess(a, b), "cmp@"+w.posLabel(fr, fr.curInstr)) {
		return w.tt.BV(64, ^uint64(0))
	}
	return w.tt.BV(64, 1)
}

func (w *World) strEq2(a, b Str) *Term {
	if a.Len() != b.Len() {
		return w.tt.F
	}
	return w.strEq(a, b)
}

func (w *World) unwrapErr(fr *frame, e Iface) []Iface {
	if m := w.lookupMethod(e.t, nil, "Unwrap"); m != nil && m.Signature.Params().Len() == 0 && m.Signature.Results().Len() == 1 {
		r := w.call(fr.t, fr, m, []Value{e.v}, nil)
		switch r := r.(type) {
		case Iface:
			if r.t != nil {
				return []Iface{r}
			}
		case []Value:
			var out []Iface
			for _, x := range r {
				if i, ok := x.(Iface); ok && i.t != nil {
					out = append(out, i)
				}
			}
			return out
		}
	}
	return nil
}

func (w *World) errorsIs(fr *frame, err, target Iface, depth int) bool {
	if err.t == nil || target.t == nil {
		return err.t == nil && target.t == nil
	}
	if depth > 20 {
		w.unsupported(fr, "errors.Is chain too deep")
	}
	if types.Comparable(target.t) && types.Identical(err.t, target.t) {
		eq := w.equals(err.t, err.v, target.v)
		if w.decideBool(eq, "errors.Is") {
			return true
		}
	}
	if m := w.lookupMethod(err.t, nil, "Is"); m != nil && m.Signature.Params().Len() == 1 {
		if r, ok := w.call(fr.t, fr, m, []Value{err.v, target}, nil).(*Term); ok {
			if w.decideBool(r, "errors.Is method") {
				return true
			}
		}
	}
	for _, u := range w.unwrapErr(fr, err) {
		if w.errorsIs(fr, u, target, depth+1) {
			return true
		}
	}
	return false
}

func (w *World) errorsAs(fr *frame, err, target Iface, depth int) bool {
	if err.t == nil {
		return false
	}
	if target.t == nil {
		panic(goPanic{v: Iface{t: types.Typ[types.String], v: Str{s: "errors: target cannot be nil"}}})
	}
	tp, ok := target.t.Underlying().(*types.Pointer)
	if !ok {
		panic(goPanic{v: Iface{t: types.Typ[types.String], v: Str{s: "errors: target must be a non-nil pointer"}}})
	}
	tt := tp.Elem()
	cell := target.v.(*Value)
	if it, isI := tt.Underlying().(*types.Interface); isI {
		if w.implements(err.t, it) {
			w.store(cell, err)
			return true
		}
	} else if types.Identical(err.t, tt) {
		w.store(cell, err.v)
		return true
	}
	if m := w.lookupMethod(err.t, nil, "As"); m != nil && m.Signature.Params().Len() == 1 {
		if r, ok := w.call(fr.t, fr, m, []Value{err.v, target}, nil).(*Term); ok && r == w.tt.T {
			return true
		}
	}
	for _, u := range w.unwrapErr(fr, err) {
		if w.errorsAs(fr, u, target, depth+1) {
			return true
		}
	}
	return false
}

var _ = errors.New

func init() {
	// math: native on concrete floats
	f1 := func(f func(float64) float64) intrinsic {
		return func(w *World, t *Thread, fr *frame, fn *ssa.Function, args []Value) Value {
			x, ok := args[0].(float64)
			if !ok {
				return Opaque{"math function of symbolic float"}
			}
			return f(x)
		}
	}
	f2 := func(f func(a, b float64) float64) intrinsic {
		return func(w *World, t *Thread, fr *frame, fn *ssa.Function, args []Value) Value {
			x, ok1 := args[0].(float64)
			y, ok2 := args[1].(float64)
			if !ok1 || !ok2 {
				return Opaque{"math function of symbolic float"}
			}
			return f(x, y)
		}
	}
	reg("math.Round", f1(math.Round))
	reg("math.Floor", f1(math.Floor))
	reg("math.Ceil", f1(math.Ceil))
	reg("math.Abs", f1(math.Abs))
	reg("math.Sqrt", f1(math.Sqrt))
	reg("math.Log", f1(math.Log))
	reg("math.Log2", f1(math.Log2))
	reg("math.Exp", f1(math.Exp))
	reg("math.Trunc", f1(math.Trunc))
	reg("math.Max", f2(math.Max))
	reg("math.Min", f2(math.Min))
	reg("math.Pow", f2(math.Pow))
	reg("math.Mod", f2(math.Mod))
	reg("math.IsNaN", func(w *World, t *Thread, fr *frame, fn *ssa.Function, args []Value) Value {
		x, ok := args[0].(float64)
		return w.tt.Bool(ok && math.IsNaN(x))
	})
	reg("math.IsInf", func(w *World, t *Thread, fr *frame, fn *ssa.Function, args []Value) Value {
		x, ok := args[0].(float64)
		s, _ := args[1].(*Term).Const64()
		return w.tt.Bool(ok && math.IsInf(x, int(int64(s))))
	})
	reg("math.Float64bits", func(w *World, t *Thread, fr *frame, fn *ssa.Function, args []Value) Value {
		x, ok := args[0].(float64)
		if !ok {
			w.unsupported(fr, "Float64bits of symbolic float")
		}
		return w.tt.BV(64, math.Float64bits(x))
	})
	reg("math.Float64frombits", func(w *World, t *Thread, fr *frame, fn *ssa.Function, args []Value) Value {
		c, ok := args[0].(*Term).Const64()
		if !ok {
			return Opaque{"float from symbolic bits"}
		}
		return math.Float64frombits(c)
	})
}

// ---- bytes.ToLower / bytes.ToUpper on ASCII input as a per-byte mapping (the
// library code tests every byte for "has an upper/lower case letter", which
// forks once per symbolic byte); input that may contain a byte >= 0x80 runs the
// real code.
func init() {
	caseMap := func(lower bool) intrinsic {
		return func(w *World, t *Thread, fr *frame, fn *ssa.Function, args []Value) Value {
			in := args[0].([]Value)
			conj := make([]*Term, 0, len(in))
			bs := make([]*Term, len(in))
			for i, v := range in {
				bs[i] = v.(*Term)
				conj = append(conj, w.tt.Cmp(OpULt, bs[i], w.tt.BV(8, 0x80)))
			}
			if !w.decideBool(w.tt.And(conj...), "bytes case mapping: ASCII input") {
				w.skipIntrinsic = fn
				defer func() { w.skipIntrinsic = nil }()
				return w.call(t, fr, fn, args, nil)
			}
			out := make([]Value, len(in))
			for i, b := range bs {
				lo, hi, delta := uint64('A'), uint64('Z'), uint64(32)
				if !lower {
					lo, hi = 'a', 'z'
					delta = 0x100 - 32
				}
				isL := w.tt.And(w.tt.Cmp(OpULe, w.tt.BV(8, lo), b), w.tt.Cmp(OpULe, b, w.tt.BV(8, hi)))
				out[i] = w.tt.Ite(isL, w.tt.Bin(OpAdd, b, w.tt.BV(8, delta)), b)
			}
			return out
		}
	}
	reg("bytes.ToLower", caseMap(true))
	reg("bytes.ToUpper", caseMap(false))
}

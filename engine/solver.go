package main

// One long-lived `z3 -in` process per exploration, driven incrementally with
// push/pop.  Terms are introduced with define-fun at the level where they are
// first needed and forgotten when that level is popped.

import (
	"bufio"
	"fmt"
	"io"
	"math/big"
	"os"
	"os/exec"
	"strings"
	"time"
)

type SolverStats struct {
	Sat, Unsat, Unknown int
	Queries             int
	Time                time.Duration
	Wait                time.Duration
	Errors              []string
}

type Solver struct {
	tt      *TermTable
	cmd     *exec.Cmd
	in      io.WriteCloser
	out     *bufio.Reader
	level   int
	defined map[uint32]int // term id -> level at which it was defined
	defs    [][]uint32     // per level: ids defined there
	ufDecl  map[string]int
	ufDefs  [][]string
	stats   SolverStats
	timeout int // ms per query
	log     io.Writer
	bin     string
	args    []string
	dead    bool
}

func NewSolver(tt *TermTable, timeoutMs int) *Solver {
	s := &Solver{tt: tt, timeout: timeoutMs, bin: envOr("GOSYM_SOLVER", "z3-new"), args: []string{"-in"}}
	if p := os.Getenv("GOSYM_SMTLOG"); p != "" {
		f, err := os.Create(fmt.Sprintf("%s.%d", p, time.Now().UnixNano()))
		if err == nil {
			s.log = f
		}
	}
	s.start()
	return s
}

func (s *Solver) start() {
	s.cmd = exec.Command(s.bin, s.args...)
	in, _ := s.cmd.StdinPipe()
	out, _ := s.cmd.StdoutPipe()
	s.cmd.Stderr = os.Stderr
	if err := s.cmd.Start(); err != nil {
		panic("cannot start solver: " + err.Error())
	}
	s.in = in
	s.out = bufio.NewReaderSize(out, 1<<16)
	s.level = 0
	s.defined = map[uint32]int{}
	s.defs = [][]uint32{nil}
	s.ufDecl = map[string]int{}
	s.ufDefs = [][]string{nil}
	s.dead = false
	s.send("(set-option :print-success false)")
	s.send("(set-option :produce-models true)")
	if s.bin == "z3" || s.bin == "z3-new" {
		s.send(fmt.Sprintf("(set-option :timeout %d)", s.timeout))
	}
}

func (s *Solver) Close() {
	if s.cmd == nil {
		return
	}
	s.in.Close()
	done := make(chan struct{})
	go func() { s.cmd.Wait(); close(done) }()
	select {
	case <-done:
	case <-time.After(2 * time.Second):
		s.cmd.Process.Kill()
		<-done
	}
	s.cmd = nil
}

func (s *Solver) send(line string) {
	if s.log != nil {
		fmt.Fprintln(s.log, line)
	}
	if _, err := io.WriteString(s.in, line+"\n"); err != nil {
		s.dead = true
	}
}

func (s *Solver) Push() {
	s.send("(push 1)")
	s.level++
	s.defs = append(s.defs, nil)
	s.ufDefs = append(s.ufDefs, nil)
}

func (s *Solver) Pop() {
	if s.level == 0 {
		panic("solver: pop at level 0")
	}
	s.send("(pop 1)")
	for _, id := range s.defs[s.level] {
		delete(s.defined, id)
	}
	for _, n := range s.ufDefs[s.level] {
		delete(s.ufDecl, n)
	}
	s.defs = s.defs[:s.level]
	s.ufDefs = s.ufDefs[:s.level]
	s.level--
}

func (s *Solver) PopTo(level int) {
	for s.level > level {
		s.Pop()
	}
}

// ref returns the SMT text that denotes t, defining sub-terms as needed.
func (s *Solver) ref(t *Term) string {
	switch t.op {
	case OpConst, OpTrue, OpFalse:
		return constStr(t)
	}
	if _, ok := s.defined[t.id]; ok {
		if t.op == OpVar {
			return "|" + t.name + "|"
		}
		return fmt.Sprintf("t%d", t.id)
	}
	// iterative post-order definition
	type item struct {
		t    *Term
		done bool
	}
	stack := []item{{t, false}}
	for len(stack) > 0 {
		it := stack[len(stack)-1]
		stack = stack[:len(stack)-1]
		x := it.t
		if x.IsConst() {
			continue
		}
		if _, ok := s.defined[x.id]; ok {
			continue
		}
		if !it.done {
			stack = append(stack, item{x, true})
			for _, c := range x.a {
				if !c.IsConst() {
					if _, ok := s.defined[c.id]; !ok {
						stack = append(stack, item{c, false})
					}
				}
			}
			continue
		}
		switch x.op {
		case OpVar:
			s.send(fmt.Sprintf("(declare-const |%s| %s)", x.name, sortStr(x.w)))
		case OpUF:
			if _, ok := s.ufDecl[x.name]; !ok {
				d := s.tt.ufs[x.name]
				var sb strings.Builder
				for i, a := range d.args {
					if i > 0 {
						sb.WriteByte(' ')
					}
					sb.WriteString(sortStr(a))
				}
				s.send(fmt.Sprintf("(declare-fun %s (%s) %s)", x.name, sb.String(), sortStr(d.ret)))
				s.ufDecl[x.name] = s.level
				s.ufDefs[s.level] = append(s.ufDefs[s.level], x.name)
			}
			fallthrough
		default:
			body := x.render(func(c *Term) string { return s.refDefined(c) })
			s.send(fmt.Sprintf("(define-fun t%d () %s %s)", x.id, sortStr(x.w), body))
		}
		s.defined[x.id] = s.level
		s.defs[s.level] = append(s.defs[s.level], x.id)
	}
	return s.refDefined(t)
}

func (s *Solver) refDefined(t *Term) string {
	switch t.op {
	case OpConst, OpTrue, OpFalse:
		return constStr(t)
	case OpVar:
		return "|" + t.name + "|"
	}
	return fmt.Sprintf("t%d", t.id)
}

func (s *Solver) Assert(t *Term) {
	if t == s.tt.T {
		return
	}
	r := s.ref(t)
	s.send("(assert " + r + ")")
}

type Result int

const (
	Unsat Result = iota
	Sat
	Unknown
)

func (r Result) String() string { return [...]string{"unsat", "sat", "unknown"}[r] }

func (s *Solver) readLine() string {
	t0 := time.Now()
	line, err := s.out.ReadString('\n')
	s.stats.Wait += time.Since(t0)
	if err != nil {
		s.dead = true
		return "(error \"solver died: " + err.Error() + "\")"
	}
	return strings.TrimSpace(line)
}

// Check runs check-sat under the current assertions.
func (s *Solver) Check() Result {
	t0 := time.Now()
	s.send("(check-sat)")
	var res Result = Unknown
	nerr := 0
	for {
		line := s.readLine()
		if line == "" && !s.dead {
			continue
		}
		if strings.HasPrefix(line, "(error") {
			s.stats.Errors = append(s.stats.Errors, line)
			nerr++
			if s.dead {
				break
			}
			continue // an error line precedes the answer; the answer is not trusted
		}
		switch line {
		case "sat":
			res = Sat
		case "unsat":
			res = Unsat
		default:
			res = Unknown
		}
		break
	}
	if nerr > 0 {
		res = Unknown
	}
	s.stats.Queries++
	s.stats.Time += time.Since(t0)
	switch res {
	case Sat:
		s.stats.Sat++
	case Unsat:
		s.stats.Unsat++
	default:
		s.stats.Unknown++
	}
	return res
}

// CheckWith checks satisfiability of the current assertions plus extra,
// without leaving extra asserted.
func (s *Solver) CheckWith(extra ...*Term) Result {
	s.Push()
	for _, e := range extra {
		s.Assert(e)
	}
	r := s.Check()
	s.Pop()
	return r
}

// ModelWith returns values of the requested terms under a model of the current
// assertions plus extra (nil if not sat).
func (s *Solver) ModelWith(want []*Term, extra ...*Term) ([]*Term, Result) {
	s.Push()
	defer s.Pop()
	for _, e := range extra {
		s.Assert(e)
	}
	r := s.Check()
	if r != Sat {
		return nil, r
	}
	return s.Values(want), Sat
}

// Values must be called right after a sat answer.
func (s *Solver) Values(want []*Term) []*Term {
	out := make([]*Term, len(want))
	var ask []int
	for i, t := range want {
		if t.IsConst() {
			out[i] = t
		} else {
			ask = append(ask, i)
		}
	}
	// chunk the request to keep lines reasonable
	const chunk = 200
	for off := 0; off < len(ask); off += chunk {
		end := off + chunk
		if end > len(ask) {
			end = len(ask)
		}
		var sb strings.Builder
		sb.WriteString("(get-value (")
		for _, i := range ask[off:end] {
			sb.WriteString(s.ref(want[i]))
			sb.WriteByte(' ')
		}
		sb.WriteString("))")
		s.send(sb.String())
		txt := s.readSexp()
		vals := parseGetValue(txt)
		if len(vals) != end-off {
			s.stats.Errors = append(s.stats.Errors, "get-value: cannot parse "+txt)
			for _, i := range ask[off:end] {
				if want[i].w == 0 {
					out[i] = s.tt.F
				} else {
					out[i] = s.tt.zero(want[i].w)
				}
			}
			continue
		}
		for j, i := range ask[off:end] {
			out[i] = s.parseValue(vals[j], want[i].w)
		}
	}
	return out
}

func (s *Solver) readSexp() string {
	var sb strings.Builder
	depth := 0
	started := false
	for {
		line := s.readLine()
		if s.dead {
			return sb.String()
		}
		for _, c := range line {
			if c == '(' {
				depth++
				started = true
			} else if c == ')' {
				depth--
			}
		}
		sb.WriteString(line)
		sb.WriteByte(' ')
		if started && depth <= 0 {
			return sb.String()
		}
	}
}

// parseGetValue splits "((e1 v1) (e2 v2) ...)" into the value strings.
func parseGetValue(txt string) []string {
	txt = strings.TrimSpace(txt)
	if !strings.HasPrefix(txt, "(") {
		return nil
	}
	var vals []string
	i := 1
	n := len(txt)
	for i < n {
		for i < n && (txt[i] == ' ' || txt[i] == '\n') {
			i++
		}
		if i >= n || txt[i] == ')' {
			break
		}
		if txt[i] != '(' {
			return nil
		}
		// pair: read two s-expressions
		i++
		var parts []string
		for len(parts) < 2 {
			for i < n && txt[i] == ' ' {
				i++
			}
			st := i
			if txt[i] == '(' {
				d := 0
				for i < n {
					if txt[i] == '(' {
						d++
					} else if txt[i] == ')' {
						d--
						if d == 0 {
							i++
							break
						}
					}
					i++
				}
			} else if txt[i] == '|' {
				i++
				for i < n && txt[i] != '|' {
					i++
				}
				i++
			} else {
				for i < n && txt[i] != ' ' && txt[i] != ')' {
					i++
				}
			}
			parts = append(parts, txt[st:i])
		}
		for i < n && txt[i] == ' ' {
			i++
		}
		if i < n && txt[i] == ')' {
			i++
		}
		vals = append(vals, parts[1])
	}
	return vals
}

func (s *Solver) parseValue(v string, w int) *Term {
	v = strings.TrimSpace(v)
	if w == 0 {
		return s.tt.Bool(v == "true")
	}
	switch {
	case strings.HasPrefix(v, "#x"):
		b, _ := new(big.Int).SetString(v[2:], 16)
		return s.tt.BVBig(w, b)
	case strings.HasPrefix(v, "#b"):
		b, _ := new(big.Int).SetString(v[2:], 2)
		return s.tt.BVBig(w, b)
	case strings.HasPrefix(v, "(_ bv"):
		f := strings.Fields(v[5:])
		b, _ := new(big.Int).SetString(f[0], 10)
		return s.tt.BVBig(w, b)
	}
	s.stats.Errors = append(s.stats.Errors, "value: cannot parse "+v)
	return s.tt.zero(w)
}

package main

import "time"

type durationT = time.Duration

func parseDurationNative(s string) (int64, error) {
	d, err := time.ParseDuration(s)
	return int64(d), err
}

package main

// Threads are goroutines of the engine that run one at a time (baton passing).
// A context switch can happen only at visible operations; the next thread is a
// recorded decision, so schedules are explored by the same DFS as data.

import (
	"fmt"
	"go/types"
	"os"

	"golang.org/x/tools/go/ssa"
)

type Thread struct {
	id       int
	w        *World
	name     string
	wake     chan struct{}
	exited   chan struct{}
	done     bool
	started  bool
	waitCond func() bool
	waitWhat string
	top      *frame
	daemon   bool
}

func (w *World) spawn(fr *frame, fn Value, args []Value) {
	t := &Thread{id: len(w.threads), w: w, wake: make(chan struct{}), exited: make(chan struct{})}
	switch f := fn.(type) {
	case *ssa.Function:
		t.name = f.Name()
	case *Closure:
		t.name = f.Fn.Name()
	}
	w.threads = append(w.threads, t)
	t.started = true
	go func() {
		defer close(t.exited)
		<-t.wake
		if w.killing {
			return
		}
		func() {
			defer func() {
				r := recover()
				if r == nil {
					return
				}
				if pe, ok := r.(pathEnd); ok && pe.kind == "killed" {
					return
				}
				// a failure in a spawned thread ends the path
				w.handlePathPanic(r, t)
				w.threadAbort(t)
			}()
			w.callValue(t, nil, fn, args)
			t.done = true
			w.threadFinished(t)
		}()
	}()
	// no scheduling point here: the new thread becomes runnable and gets its
	// chance at the spawner's next acquire-type operation
}

// threadAbort: path over because of a failure in thread t (not main): hand the
// baton to main with the stop flag so that it unwinds.
func (w *World) threadAbort(t *Thread) {
	t.done = true
	w.killing = true
	main := w.threads[0]
	if main != t && !main.done {
		w.cur = main
		main.wake <- struct{}{}
	}
}

// threadFinished: t returned normally; pick somebody else.
func (w *World) threadFinished(t *Thread) {
	next := w.pickNext(nil)
	if next == nil {
		// nobody can run: main is blocked forever
		w.stall("all threads blocked after " + t.name + " finished")
		w.killing = true
		main := w.threads[0]
		w.cur = main
		main.wake <- struct{}{}
		return
	}
	w.cur = next
	next.wake <- struct{}{}
}

func (w *World) runnable() []*Thread {
	var rs []*Thread
	for _, t := range w.threads {
		if t.done {
			continue
		}
		if t.waitCond == nil || t.waitCond() {
			rs = append(rs, t)
		}
	}
	return rs
}

// pickNext chooses the next thread among the runnable ones (a decision).
func (w *World) pickNext(cur *Thread) *Thread {
	rs := w.runnable()
	if len(rs) == 0 {
		// timers may still fire
		if w.fireNextTimer() {
			rs = w.runnable()
		}
		if len(rs) == 0 {
			return nil
		}
	}
	if len(rs) == 1 {
		return rs[0]
	}
	_, settling := w.ext["settling"]
	if _, seq := w.ext["sequential"]; seq || settling {
		for _, t := range rs {
			if t == cur {
				return t
			}
		}
		return rs[0]
	}
	// order: current thread first so that alternative 0 = "no context switch"
	if cur != nil {
		for i, t := range rs {
			if t == cur {
				rs[0], rs[i] = rs[i], rs[0]
				break
			}
		}
	}
	if os.Getenv("GOSYM_SCHEDLOG") != "" && w.pathNo <= 3 && cur != nil {
		fmt.Fprintf(os.Stderr, "SCHED path=%d thread=%d at %s runnable=%d\n", w.pathNo, cur.id, cur.waitWhat, len(rs))
	}
	i := w.chooseN(len(rs), "sched")
	return rs[i]
}

// yield is a scheduling point of thread t.  If t.waitCond is set the thread
// blocks until the condition holds.
func (w *World) yield(t *Thread, what string) {
	if w.tolerant > 0 {
		if t.waitCond != nil && !t.waitCond() {
			panic(pathEnd{"unsupported", "blocking operation during package initialisation"})
		}
		t.waitCond = nil
		return
	}
	t.waitWhat = what
	next := w.pickNext(t)
	if next == nil {
		w.stall(fmt.Sprintf("thread %d (%s) blocked at %s and no thread is runnable", t.id, t.name, what))
		panic(pathEnd{"stop", "stall"})
	}
	if next == t {
		t.waitCond = nil
		return
	}
	w.cur = next
	if !next.started {
		panic("scheduler: thread not started")
	}
	next.wake <- struct{}{}
	if t.id == 0 {
		<-mainWake(w)
	} else {
		<-t.wake
	}
	if w.killing {
		panic(pathEnd{"killed", ""})
	}
	t.waitCond = nil
}

func mainWake(w *World) chan struct{} {
	m := w.threads[0]
	if m.wake == nil {
		m.wake = make(chan struct{})
	}
	return m.wake
}

// block waits until cond holds.
func (w *World) block(t *Thread, what string, cond func() bool) {
	for !cond() {
		t.waitCond = cond
		w.yield(t, what)
	}
	t.waitCond = nil
}

func (w *World) stall(msg string) {
	if w.replaying() {
		return
	}
	var desc string
	for _, t := range w.threads {
		if !t.done {
			desc += fmt.Sprintf("  thread %d %s blocked at %s\n%s", t.id, t.name, t.waitWhat, indent(w.where(t.top)))
		}
	}
	w.res.Obligations[w.harness+".nostall"]++
	w.recordFailure(w.tt.T, w.harness+".nostall", "stall", msg, desc)
}

func indent(s string) string {
	out := ""
	for _, l := range splitLines(s) {
		out += "      " + l + "\n"
	}
	return out
}

func splitLines(s string) []string {
	var out []string
	cur := ""
	for _, c := range s {
		if c == '\n' {
			if cur != "" {
				out = append(out, cur)
			}
			cur = ""
		} else {
			cur += string(c)
		}
	}
	if cur != "" {
		out = append(out, cur)
	}
	return out
}

func (w *World) killThreads() {
	w.killing = true
	for _, t := range w.threads {
		if t.id == 0 || !t.started {
			continue
		}
		select {
		case <-t.exited:
			continue
		default:
		}
		select {
		case t.wake <- struct{}{}:
		case <-t.exited:
		}
		<-t.exited
	}
	w.killing = false
}

// ---------------------------------------------------------------- channels

type Chan struct {
	cap         int
	buf         Value // cell: []Value (copy on write)
	closed      Value // cell: bool
	recvWaiting Value // cell: int (receivers blocked on this channel)
	sent, recvd Value // cells: int counters (tickets for unbuffered sends)
}

func (w *World) newChan(n int) *Chan {
	return &Chan{cap: n, buf: []Value(nil), closed: false, recvWaiting: 0, sent: 0, recvd: 0}
}

func (c *Chan) items() []Value { return c.buf.([]Value) }
func (c *Chan) isClosed() bool { return c.closed.(bool) }
func (w *World) chanLen(c *Chan) int {
	if c == nil || c.cap == 0 {
		return 0
	}
	return len(c.items())
}

func (w *World) chanPush(c *Chan, v Value) int {
	old := c.items()
	nw := make([]Value, len(old)+1)
	copy(nw, old)
	nw[len(old)] = copyVal(v)
	w.storeLeaf(&c.buf, nw)
	w.storeLeaf(&c.sent, c.sent.(int)+1)
	return c.sent.(int)
}

func (w *World) chanPop(c *Chan) Value {
	old := c.items()
	v := old[0]
	nw := make([]Value, len(old)-1)
	copy(nw, old[1:])
	w.storeLeaf(&c.buf, nw)
	w.storeLeaf(&c.recvd, c.recvd.(int)+1)
	return v
}

// canSendNB: a send can complete right now without blocking.  For an unbuffered
// channel that requires a receiver that is blocked and not yet served.
func (w *World) canSendNB(c *Chan) bool {
	if c.isClosed() {
		return true // will panic
	}
	if c.cap > 0 {
		return len(c.items()) < c.cap
	}
	return c.recvWaiting.(int) > len(c.items())
}

func (w *World) canRecv(c *Chan) bool {
	return len(c.items()) > 0 || c.isClosed()
}

func (w *World) chanSend(fr *frame, c *Chan, v Value) {
	t := fr.t
	if c == nil {
		w.block(t, "send on nil channel", func() bool { return false })
	}
	w.syncYield(t, c, "chan send")
	if c.isClosed() {
		w.rtPanic(fr, "send on closed channel")
	}
	if c.cap > 0 {
		w.block(t, "chan send", func() bool { return len(c.items()) < c.cap || c.isClosed() })
		if c.isClosed() {
			w.rtPanic(fr, "send on closed channel")
		}
		w.chanPush(c, v)
		return
	}
	// unbuffered: offer the value, then wait until a receiver has taken it
	ticket := w.chanPush(c, v)
	w.block(t, "chan send (unbuffered)", func() bool { return c.recvd.(int) >= ticket || c.isClosed() })
	if c.recvd.(int) < ticket {
		w.rtPanic(fr, "send on closed channel")
	}
}

func (w *World) chanRecv(fr *frame, c *Chan, commaOk bool, rt types.Type) Value {
	t := fr.t
	if c == nil {
		w.block(t, "receive from nil channel", func() bool { return false })
	}
	w.syncYield(t, c, "chan recv")
	var v Value
	ok := true
	if !w.canRecv(c) {
		w.storeLeaf(&c.recvWaiting, c.recvWaiting.(int)+1)
		w.block(t, "chan recv", func() bool { return w.canRecv(c) })
		w.storeLeaf(&c.recvWaiting, c.recvWaiting.(int)-1)
	}
	if len(c.items()) > 0 {
		v = w.chanPop(c)
	} else {
		ok = false
		et := rt
		if commaOk {
			et = rt.(*types.Tuple).At(0).Type()
		}
		v = w.zero(et)
	}
	if commaOk {
		return Tuple{v, w.tt.Bool(ok)}
	}
	return v
}

func (w *World) chanClose(fr *frame, c *Chan) {
	if c == nil {
		w.rtPanic(fr, "close of nil channel")
	}
	if c.isClosed() {
		w.rtPanic(fr, "close of closed channel")
	}
	w.storeLeaf(&c.closed, true)
}

func (w *World) selectOp(fr *frame, instr *ssa.Select) Value {
	t := fr.t
	type sc struct {
		c    *Chan
		send bool
		v    Value
	}
	var cases []sc
	for _, st := range instr.States {
		c, _ := fr.get(st.Chan).(*Chan)
		k := sc{c: c, send: st.Dir == types.SendOnly}
		if k.send {
			k.v = fr.get(st.Send)
		}
		cases = append(cases, k)
	}
	ready := func() []int {
		var r []int
		for i, k := range cases {
			if k.c == nil {
				continue
			}
			if k.send && w.canSendNB(k.c) || !k.send && w.canRecv(k.c) {
				r = append(r, i)
			}
		}
		return r
	}
	for i, k := range cases {
		if k.c != nil {
			if i == len(cases)-1 {
				w.syncYield(t, k.c, "select")
			} else {
				w.touchOnly(t, k.c)
			}
		}
	}
	chosen := -1
	rs := ready()
	if len(rs) == 0 {
		if !instr.Blocking {
			chosen = -1
		} else {
			// announce waiting receivers for rendezvous
			for _, k := range cases {
				if k.c != nil && !k.send {
					w.storeLeaf(&k.c.recvWaiting, k.c.recvWaiting.(int)+1)
				}
			}
			w.block(t, "select", func() bool { return len(ready()) > 0 })
			for _, k := range cases {
				if k.c != nil && !k.send {
					w.storeLeaf(&k.c.recvWaiting, k.c.recvWaiting.(int)-1)
				}
			}
			rs = ready()
			// A sender that found this select parked has already completed its send (the value
			// sits in the unbuffered channel's hand-over slot): in Go the parked goroutine is
			// dequeued by that sender and its select is decided - it cannot take another case
			// that became ready in the meantime.  (The order "other case first" is the schedule
			// in which this thread runs before the sender; it is explored separately.)
			var committed []int
			for _, i := range rs {
				if k := cases[i]; !k.send && k.c.cap == 0 && len(k.c.items()) > 0 {
					committed = append(committed, i)
				}
			}
			if len(committed) > 0 {
				rs = committed
			}
		}
	}
	if len(rs) > 0 {
		chosen = rs[w.chooseN(len(rs), "select")]
	}
	r := Tuple{w.tt.BV(64, uint64(int64(chosen))), w.tt.F}
	recvOk := false
	var recvVals []Value
	for i, st := range instr.States {
		if st.Dir == types.RecvOnly {
			et := st.Chan.Type().Underlying().(*types.Chan).Elem()
			var v Value = w.zero(et)
			if i == chosen {
				k := cases[i]
				if len(k.c.items()) > 0 {
					v = w.chanPop(k.c)
					recvOk = true
				}
			}
			recvVals = append(recvVals, v)
		} else if i == chosen {
			k := cases[i]
			if k.c.isClosed() {
				w.rtPanic(fr, "send on closed channel")
			}
			w.chanPush(k.c, k.v)
		}
	}
	r[1] = w.tt.Bool(recvOk)
	r = append(r, recvVals...)
	return r
}

package main

// Protobuf runtime model: Marshal(m) is an opaque token carrying a deep
// snapshot of m; Unmarshal(token, dst) restores it (wire fidelity of protobuf is
// trusted); Clone is a deep copy.  Byte-level decoding of arbitrary input is
// outside the model (harnesses build messages, not bytes).

import (
	"fmt"
	"go/types"

	"golang.org/x/tools/go/ssa"
)

type ProtoTok struct {
	name string // message type name
	snap Value  // Struct snapshot (deep copy)
	id   int
}

func (w *World) deepCopy(v Value, seen map[*Value]*Value) Value {
	switch v := v.(type) {
	case Struct:
		n := make(Struct, len(v))
		for i := range v {
			n[i] = w.deepCopy(v[i], seen)
		}
		return n
	case Array:
		n := make(Array, len(v))
		for i := range v {
			n[i] = w.deepCopy(v[i], seen)
		}
		return n
	case []Value:
		if v == nil {
			return v
		}
		n := make([]Value, len(v))
		for i := range v {
			n[i] = w.deepCopy(v[i], seen)
		}
		return n
	case *Value:
		if v == nil {
			return v
		}
		if c, ok := seen[v]; ok {
			return c
		}
		c := new(Value)
		seen[v] = c
		*c = w.deepCopy(*v, seen)
		return c
	case *Map:
		if v == nil {
			return v
		}
		ents := v.entries()
		ne := make([]mapEnt, len(ents))
		for i, e := range ents {
			ne[i] = mapEnt{w.deepCopy(e.k, seen), w.deepCopy(e.v, seen)}
		}
		return &Map{kt: v.kt, vt: v.vt, ents: ne}
	case Iface:
		return Iface{t: v.t, v: w.deepCopy(v.v, seen)}
	}
	return v
}

func msgName(t types.Type) string {
	if p, ok := t.Underlying().(*types.Pointer); ok {
		t = p.Elem()
	}
	if n, ok := t.(*types.Named); ok {
		return n.Obj().Name()
	}
	return t.String()
}

func (w *World) protoTokOf(v Value) (ProtoTok, bool) {
	s, ok := v.([]Value)
	if !ok || len(s) != 1 {
		return ProtoTok{}, false
	}
	pt, ok := s[0].(ProtoTok)
	return pt, ok
}

func (w *World) protoMarshal(fr *frame, m Value) Value {
	itf := m.(Iface)
	if itf.t == nil {
		return Tuple{[]Value(nil), w.mkError("proto: Marshal called with nil")}
	}
	p, _ := itf.v.(*Value)
	if p == nil {
		return Tuple{[]Value{}, w.nilError()}
	}
	n := 0
	if v, ok := w.ext["prototok"]; ok {
		n = v.(int)
	}
	w.ext["prototok"] = n + 1
	tok := ProtoTok{name: msgName(itf.t), snap: w.deepCopy(*p, map[*Value]*Value{}), id: n}
	return Tuple{[]Value{tok}, w.nilError()}
}

func (w *World) protoUnmarshal(fr *frame, b Value, m Value) Value {
	itf := m.(Iface)
	p, _ := itf.v.(*Value)
	if itf.t == nil || p == nil {
		return w.mkError("proto: Unmarshal into nil message")
	}
	if tok, ok := w.protoTokOf(b); ok {
		if tok.name != msgName(itf.t) {
			return w.mkError("proto: cannot parse invalid wire-format data")
		}
		w.store(p, w.deepCopy(tok.snap, map[*Value]*Value{}))
		return w.nilError()
	}
	bs := b.([]Value)
	if len(bs) == 0 {
		w.store(p, w.zero(deref(itf.t)))
		return w.nilError()
	}
	w.unsupported(fr, "proto.Unmarshal of raw bytes (byte-level protobuf decoding is outside the model)")
	return nil
}

func init() {
	const pp = "google.golang.org/protobuf/proto"
	reg(pp+".Marshal", func(w *World, t *Thread, fr *frame, fn *ssa.Function, args []Value) Value {
		return w.protoMarshal(fr, args[0])
	})
	reg(pp+".Unmarshal", func(w *World, t *Thread, fr *frame, fn *ssa.Function, args []Value) Value {
		return w.protoUnmarshal(fr, args[0], args[1])
	})
	reg("("+pp+".UnmarshalOptions).Unmarshal", func(w *World, t *Thread, fr *frame, fn *ssa.Function, args []Value) Value {
		return w.protoUnmarshal(fr, args[1], args[2])
	})
	reg("("+pp+".MarshalOptions).Marshal", func(w *World, t *Thread, fr *frame, fn *ssa.Function, args []Value) Value {
		return w.protoMarshal(fr, args[1])
	})
	reg(pp+".Clone", func(w *World, t *Thread, fr *frame, fn *ssa.Function, args []Value) Value {
		itf := args[0].(Iface)
		if itf.t == nil {
			return itf
		}
		return w.deepCopy(itf, map[*Value]*Value{})
	})
	reg(pp+".Size", func(w *World, t *Thread, fr *frame, fn *ssa.Function, args []Value) Value {
		return w.tt.Fresh("protosize", 64)
	})
	const ap = "google.golang.org/protobuf/types/known/anypb"
	reg(ap+".New", func(w *World, t *Thread, fr *frame, fn *ssa.Function, args []Value) Value {
		itf := args[0].(Iface)
		rt := fn.Signature.Results().At(0).Type()
		if itf.t == nil {
			return Tuple{(*Value)(nil), w.mkError("invalid nil source message")}
		}
		cell := new(Value)
		*cell = w.zero(deref(rt))
		st := deref(rt).Underlying().(*types.Struct)
		s := (*cell).(Struct)
		s[fieldIndex(st, "TypeUrl")] = Str{s: "type.googleapis.com/proto." + msgName(itf.t)}
		mb := w.protoMarshal(fr, itf).(Tuple)
		s[fieldIndex(st, "Value")] = mb[0]
		return Tuple{cell, w.nilError()}
	})
	reg(ap+".UnmarshalTo", func(w *World, t *Thread, fr *frame, fn *ssa.Function, args []Value) Value {
		src := args[0].(*Value)
		if src == nil {
			return w.mkError("invalid nil source message")
		}
		st := deref(fn.Signature.Params().At(0).Type()).Underlying().(*types.Struct)
		s := (*src).(Struct)
		url := w.concStr(fr, s[fieldIndex(st, "TypeUrl")], "Any.TypeUrl")
		dst := args[1].(Iface)
		want := "type.googleapis.com/proto." + msgName(dst.t)
		if url != want {
			return w.mkError(fmt.Sprintf("mismatched message type: got %q, want %q", want, url))
		}
		return w.protoUnmarshal(fr, s[fieldIndex(st, "Value")], dst)
	})
	const impl = "google.golang.org/protobuf/internal/impl"
	reg("("+impl+".Export).MessageStringOf", func(w *World, t *Thread, fr *frame, fn *ssa.Function, args []Value) Value {
		return Str{opq: true}
	})
	reg("("+impl+".Export).MessageStateOf", func(w *World, t *Thread, fr *frame, fn *ssa.Function, args []Value) Value {
		return (*Value)(nil)
	})
}

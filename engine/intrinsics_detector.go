package main

// Redis publisher recorder and the reader of the detector's acceptance rules
// (src/sessions.rs, re-read from the mirror on every run).

import (
	"os"
	"path/filepath"
	"regexp"
	"strings"

	"golang.org/x/tools/go/ssa"
)

// detectorRules extracts, from sessions.rs:
//
//	proto.tcp / proto.udp     IPProto arms accepted by From<&StationToDetector>
//	proto.other-rejected      the `_ => return Err(...)` arm exists
//	phantom-must-parse        SessionDetails::new rejects an unparsable phantom
//	client-empty-ok-for-v6    empty client accepted only with a v6 phantom
//	mixed-rejected            v4 phantom with non-v4 client rejected
//	conversion-before-dispatch  the conversion precedes `match s2d.operation()`
//
// value 1 = present, 0 = absent, -1 = the item could not be recognised.
func detectorRules(root string) map[string]int {
	out := map[string]int{}
	for _, k := range []string{"proto.tcp", "proto.udp", "proto.other-rejected", "phantom-must-parse", "client-empty-ok-for-v6", "mixed-rejected", "conversion-before-dispatch"} {
		out[k] = -1
	}
	b, err := os.ReadFile(filepath.Join(root, "src", "sessions.rs"))
	if err != nil {
		return out
	}
	src := string(b)
	if i := strings.Index(src, "impl From<&StationToDetector> for SessionResult"); i >= 0 {
		body := src[i:]
		if j := strings.Index(body, "\n}\n"); j > 0 {
			body = body[:j]
		}
		if m := regexp.MustCompile(`match\s+s2d\.proto\(\)\s*\{([^}]*)\}`).FindStringSubmatch(body); m != nil {
			arms := m[1]
			out["proto.tcp"] = b2i(regexp.MustCompile(`IPProto::Tcp\s*=>`).MatchString(arms))
			out["proto.udp"] = b2i(regexp.MustCompile(`IPProto::Udp\s*=>`).MatchString(arms))
			out["proto.other-rejected"] = b2i(regexp.MustCompile(`_\s*=>\s*return\s+Err`).MatchString(arms))
		}
	}
	if i := strings.Index(src, "pub fn new("); i >= 0 {
		body := src[i:]
		if j := strings.Index(body, "\n    }\n"); j > 0 {
			body = body[:j]
		}
		if strings.Contains(body, "phantom_ip.parse()") {
			out["phantom-must-parse"] = b2i(strings.Contains(body, "InvalidPhantom"))
			out["client-empty-ok-for-v6"] = b2i(regexp.MustCompile(`client_ip\.is_empty\(\)\s*&&\s*phantom\.is_ipv6\(\)`).MatchString(body) && strings.Contains(body, "InvalidClient"))
			out["mixed-rejected"] = b2i(regexp.MustCompile(`phantom\.is_ipv4\(\)\s*&&\s*!src\.is_ipv4\(\)`).MatchString(body) && strings.Contains(body, "MixedV4V6Error"))
		}
	}
	if i := strings.Index(src, "fn pubsub_handle_s2d("); i >= 0 {
		body := src[i:]
		if j := strings.Index(body, "\n}\n"); j > 0 {
			body = body[:j]
		}
		c := strings.Index(body, "SessionResult::from(s2d)")
		d := strings.Index(body, "match s2d.operation()")
		if c >= 0 && d >= 0 {
			ret := strings.Index(body[c:], "return;")
			out["conversion-before-dispatch"] = b2i(c < d && ret >= 0 && c+ret < d)
		} else if d >= 0 {
			out["conversion-before-dispatch"] = 0
		}
	}
	return out
}

func b2i(b bool) int {
	if b {
		return 1
	}
	return 0
}

func init() {
	const rp = "github.com/go-redis/redis/v8"
	stubPkgs[rp] = true
	reg("("+rp+".cmdable).Publish", func(w *World, t *Thread, fr *frame, fn *ssa.Function, args []Value) Value {
		var l []Value
		if v, ok := w.ext["published"]; ok {
			l = v.([]Value)
		}
		msg := args[3]
		if itf, ok := msg.(Iface); ok {
			msg = itf.v
		}
		w.ext["published"] = append(l[:len(l):len(l)], msg)
		return stubIntrinsic(w, t, fr, fn, args)
	})
	reg("verifnd.PublishedCount", func(w *World, t *Thread, fr *frame, fn *ssa.Function, args []Value) Value {
		n := 0
		if v, ok := w.ext["published"]; ok {
			n = len(v.([]Value))
		}
		return w.tt.BV(64, uint64(n))
	})
	reg("verifnd.Published", func(w *World, t *Thread, fr *frame, fn *ssa.Function, args []Value) Value {
		i := int(w.concreteInt(fr, args[0], "index"))
		if v, ok := w.ext["published"]; ok && i < len(v.([]Value)) {
			if s, ok := v.([]Value)[i].(Str); ok && s.tok != nil && s.tok.kind == "proto" {
				return []Value{*s.tok.pt}
			}
		}
		return []Value(nil)
	})
	reg("verifnd.DetectorRule", func(w *World, t *Thread, fr *frame, fn *ssa.Function, args []Value) Value {
		name := w.concStr(fr, args[0], "rule name")
		v, ok := w.ext["detrules"]
		if !ok {
			v = detectorRules(w.pi.mirror)
			w.ext["detrules"] = v
		}
		r, ok := v.(map[string]int)[name]
		if !ok {
			r = -1
		}
		return w.tt.BV(64, uint64(int64(r)))
	})
}

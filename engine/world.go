package main

// World: one interpreter instance (own globals heap, term table, solver) and
// the depth-first exploration of one harness by re-execution.

import (
	"fmt"
	"go/types"
	"os"
	"runtime/debug"
	"sort"
	"strings"
	"sync"
	"time"

	"golang.org/x/tools/go/ssa"
)

type Bounds struct {
	MaxSteps     int64 // interpreted instructions per path
	MaxDecisions int   // symbolic decisions per path
	MaxDepth     int   // call depth
	MaxLoop      int   // visits of one block in one frame
	MaxPaths     int   // paths per harness (0 = unlimited)
	QueryMs      int
	MaxSymAlloc  int
	WallS        int // wall-clock budget per harness (0 = none)
}

func defaultBounds() Bounds {
	return Bounds{MaxSteps: 20_000_000, MaxDecisions: 4000, MaxDepth: 400, MaxLoop: 200_000, MaxPaths: 0, QueryMs: 10_000}
}

type decision struct {
	term  *Term
	val   *Term
	tried []*Term
	max   int // domain size when known (0 = unknown)
	label string
	// for solver-free choices
	n      int
	chosen int
}

type ndEntry struct {
	Label string
	Kind  string // bool,u8,...,bytes,choose,range
	terms []*Term
	conc  int64 // for choose
}

type pathEnd struct {
	kind string // infeasible, unsupported, unwind, killed, stop, exit
	msg  string
}

type goPanic struct {
	v     Value
	where string
}

type Failure struct {
	Harness    string
	Obligation string
	Kind       string // assert, panic, stall
	Msg        string
	Findings   []string // finding ids whose predicate coincides (open ones)
	Unexplain  bool     // a failing input exists outside every open finding predicate
	Vector     []ndValue
	FindVecs   map[string][]ndValue
	Where      string
	Decisions  []string
}

type ndValue struct {
	Label string `json:"label"`
	Kind  string `json:"kind"`
	Hex   string `json:"hex,omitempty"`
	Int   int64  `json:"int"`
}

type findingDecl struct {
	id   string
	cond *Term
}

type HarnessResult struct {
	Name          string
	Paths         int
	Decisions     int
	Steps         int64
	Obligations   map[string]int // name -> times checked
	Discharged    map[string]int
	Failures      []*Failure
	Reached       map[string][]ndValue
	Unsupported   []string
	Unwind        []string
	Unknown       []string
	Infeasible    int
	FnsEncoded    map[string]bool
	Models        map[string]bool
	Cuts          map[string]int
	Chooses       map[string]int
	Solver        SolverStats
	Wall          time.Duration
	EngineErr     []string
	ExpectedReach []string
}

type World struct {
	skipIntrinsic *ssa.Function // set while a summary falls back to the real code of its function
	forkSites     map[string]int
	prog          *ssa.Program
	pi            *progInfo
	tt            *TermTable
	sol           *Solver
	globals       map[*ssa.Global]*Value
	bounds        Bounds

	trail   []trailEnt
	trailOn bool

	// exploration state
	decisions []decision
	dpos      int
	pc        []*Term
	ndlog     []ndEntry
	findings  []findingDecl
	steps     int64
	pathNo    int

	// threads
	threads []*Thread
	cur     *Thread
	killing bool

	res        *HarnessResult
	harness    string
	openFinds  map[string]bool
	constCache map[*ssa.Const]Value
	initDone   map[*ssa.Package]bool
	inInit     bool
	ufMemo     map[uint32][2]bool
	findObl    map[string][]string // finding id -> obligation patterns it may explain
	forced     []ndValue           // model replay: nondeterministic values fixed to a vector
	forcedPos  int
	shard      int
	nshards    int
	tolerant   int // >0: executing best-effort package initialisation
	rtErrT     types.Type
	clock      Value            // cell: *Term (int64 ns since epoch)
	ext        map[string]Value // per-path scratch cells for models (trail-logged)
	extInit    map[string]Value
	seed       int64
	trace      bool
	failSeen   map[string]bool
	sampleHint map[string]*Term
}

func NewWorld(pi *progInfo, b Bounds) *World {
	w := &World{prog: pi.prog, pi: pi, tt: NewTermTable(), bounds: b}
	w.globals = map[*ssa.Global]*Value{}
	w.constCache = map[*ssa.Const]Value{}
	w.initDone = map[*ssa.Package]bool{}
	w.ext = map[string]Value{}
	if rt := w.prog.ImportedPackage("runtime"); rt != nil {
		if t := rt.Type("errorString"); t != nil {
			w.rtErrT = t.Object().Type()
		}
	}
	for _, pkg := range w.prog.AllPackages() {
		for _, m := range pkg.Members {
			if g, ok := m.(*ssa.Global); ok {
				cell := w.zero(deref(g.Type()))
				w.globals[g] = &cell
			}
		}
	}
	return w
}

// ---------------------------------------------------------------- decisions

func (w *World) replaying() bool { return w.dpos < len(w.decisions) }

func (w *World) noteDecision() {
	if len(w.decisions) > w.bounds.MaxDecisions {
		panic(pathEnd{"unwind", fmt.Sprintf("more than %d symbolic decisions on one path", w.bounds.MaxDecisions)})
	}
}

// decideBool forks on a symbolic condition and returns the side taken.
func (w *World) decideBool(c *Term, label string) bool {
	if c == w.tt.T {
		return true
	}
	if c == w.tt.F {
		return false
	}
	// already decided on this path?
	for i := len(w.pc) - 1; i >= 0 && i >= len(w.pc)-4000; i-- {
		if w.pc[i] == c {
			return true
		}
		if w.pc[i].op == OpBNot && w.pc[i].a[0] == c {
			return false
		}
	}
	if w.replaying() {
		d := &w.decisions[w.dpos]
		if d.term != c {
			panic(pathEnd{"engine", fmt.Sprintf("nondeterministic re-execution at decision %d (%s vs %s)", w.dpos, d.label, label)})
		}
		w.dpos++
		if d.val == w.tt.T {
			w.pc = append(w.pc, c)
			return true
		}
		w.pc = append(w.pc, w.tt.Not(c))
		return false
	}
	w.noteDecision()
	w.sol.Push()
	d := decision{term: c, max: 2, label: label}
	// try the true side first
	w.sol.Push()
	w.sol.Assert(c)
	r := w.sol.Check()
	w.sol.Pop()
	switch r {
	case Sat:
		d.val = w.tt.T
		d.tried = []*Term{w.tt.T}
		w.sol.Assert(c)
	case Unsat:
		d.val = w.tt.F
		d.tried = []*Term{w.tt.T, w.tt.F}
		w.sol.Assert(w.tt.Not(c))
	default:
		w.sol.Pop()
		w.res.Unknown = append(w.res.Unknown, "branch feasibility: "+label)
		panic(pathEnd{"unknown", "solver unknown at " + label})
	}
	w.decisions = append(w.decisions, d)
	w.dpos++
	w.res.Decisions++
	if d.val == w.tt.T {
		w.pc = append(w.pc, c)
		return true
	}
	w.pc = append(w.pc, w.tt.Not(c))
	return false
}

// concretize forks over the feasible values of t.
func (w *World) concretize(t *Term, label string) uint64 {
	if v, ok := t.Const64(); ok {
		return v
	}
	if t.w > 64 {
		panic(pathEnd{"unsupported", "concretize of wide term at " + label})
	}
	if w.replaying() {
		d := &w.decisions[w.dpos]
		if d.term != t {
			panic(pathEnd{"engine", fmt.Sprintf("nondeterministic re-execution at decision %d (%s vs %s)", w.dpos, d.label, label)})
		}
		w.dpos++
		w.pc = append(w.pc, w.tt.Eq(t, d.val))
		return d.val.k
	}
	w.noteDecision()
	w.sol.Push()
	r := w.sol.Check()
	if r != Sat {
		w.sol.Pop()
		if r == Unsat {
			panic(pathEnd{"infeasible", "concretize on infeasible path"})
		}
		w.res.Unknown = append(w.res.Unknown, "concretize: "+label)
		panic(pathEnd{"unknown", "solver unknown at " + label})
	}
	val := w.sol.Values([]*Term{t})[0]
	w.sol.Assert(w.tt.Eq(t, val))
	d := decision{term: t, val: val, tried: []*Term{val}, label: label}
	w.decisions = append(w.decisions, d)
	w.dpos++
	w.res.Decisions++
	w.pc = append(w.pc, w.tt.Eq(t, val))
	return val.k
}

// chooseN is a solver-free fork over 0..n-1.
func (w *World) chooseN(n int, label string) int {
	if n <= 1 {
		return 0
	}
	if w.replaying() {
		d := &w.decisions[w.dpos]
		if d.term != nil || d.n != n {
			panic(pathEnd{"engine", fmt.Sprintf("nondeterministic re-execution at choice %d (%s vs %s)", w.dpos, d.label, label)})
		}
		w.dpos++
		return d.chosen
	}
	w.noteDecision()
	first := 0
	if len(w.decisions) == 0 && w.nshards > 1 {
		// top-level case split farmed out over shards
		first = w.shard
		if first >= n {
			panic(pathEnd{"stop", "empty shard"})
		}
	}
	w.sol.Push()
	w.decisions = append(w.decisions, decision{n: n, chosen: first, label: label})
	w.dpos++
	w.res.Decisions++
	return first
}

// backtrack advances the decision vector to the next unexplored alternative.
func (w *World) backtrack() bool {
	ok := w.backtrack1()
	if ok && forkProfile {
		if w.forkSites == nil {
			w.forkSites = map[string]int{}
		}
		w.forkSites[w.decisions[len(w.decisions)-1].label]++
	}
	return ok
}

var forkProfile = os.Getenv("GOSYM_FORKS") != ""

func (w *World) dumpForks() {
	if !forkProfile {
		return
	}
	type kv struct {
		k string
		v int
	}
	var l []kv
	for k, v := range w.forkSites {
		l = append(l, kv{k, v})
	}
	sort.Slice(l, func(i, j int) bool { return l[i].v > l[j].v })
	for i, e := range l {
		if i >= 25 {
			break
		}
		fmt.Fprintf(os.Stderr, "FORKS %6d %s\n", e.v, e.k)
	}
}

func (w *World) backtrack1() bool {
	for len(w.decisions) > 0 {
		i := len(w.decisions) - 1
		d := &w.decisions[i]
		w.sol.PopTo(i)
		if d.term == nil {
			step := 1
			if i == 0 && w.nshards > 1 {
				step = w.nshards
			}
			if d.chosen+step < d.n {
				d.chosen += step
				w.sol.Push()
				return true
			}
			w.decisions = w.decisions[:i]
			continue
		}
		if d.max > 0 && len(d.tried) >= d.max {
			w.decisions = w.decisions[:i]
			continue
		}
		w.sol.Push()
		if d.term.w == 0 {
			// only the false side is left
			nc := w.tt.Not(d.term)
			w.sol.Assert(nc)
			r := w.sol.Check()
			if r == Sat {
				d.val = w.tt.F
				d.tried = append(d.tried, w.tt.F)
				return true
			}
			if r == Unknown {
				w.res.Unknown = append(w.res.Unknown, "branch feasibility (else): "+d.label)
			}
			w.sol.Pop()
			w.decisions = w.decisions[:i]
			continue
		}
		for _, v := range d.tried {
			w.sol.Assert(w.tt.Not(w.tt.Eq(d.term, v)))
		}
		r := w.sol.Check()
		if r == Sat {
			val := w.sol.Values([]*Term{d.term})[0]
			w.sol.Assert(w.tt.Eq(d.term, val))
			d.val = val
			d.tried = append(d.tried, val)
			return true
		}
		if r == Unknown {
			w.res.Unknown = append(w.res.Unknown, "concretize (next): "+d.label)
		}
		w.sol.Pop()
		w.decisions = w.decisions[:i]
	}
	w.sol.PopTo(0)
	return false
}

// assume adds c to the path condition; an infeasible path ends silently.
func (w *World) assume(c *Term, what string) {
	if c == w.tt.T {
		return
	}
	w.pc = append(w.pc, c)
	if c == w.tt.F {
		panic(pathEnd{"infeasible", what})
	}
	if w.replaying() {
		return
	}
	w.sol.Assert(c)
	switch w.sol.Check() {
	case Unsat:
		panic(pathEnd{"infeasible", what})
	case Unknown:
		w.res.Unknown = append(w.res.Unknown, "assume: "+what)
		panic(pathEnd{"unknown", what})
	}
}

// assumeNoCheck adds a constraint that cannot make the path infeasible
// (definitional facts about fresh symbols).
func (w *World) assumeNoCheck(c *Term) {
	if c == w.tt.T {
		return
	}
	w.pc = append(w.pc, c)
	if w.replaying() {
		return
	}
	w.sol.Assert(c)
}

// ---------------------------------------------------------------- nondet log / models

func (w *World) logND(label, kind string, terms []*Term, conc int64) {
	w.ndlog = append(w.ndlog, ndEntry{Label: label, Kind: kind, terms: terms, conc: conc})
	if w.forced != nil && kind != "choose" {
		// model replay: pin the values to the recorded vector
		if w.forcedPos < len(w.forced) && w.forced[w.forcedPos].Label == label {
			fv := w.forced[w.forcedPos]
			switch strings.TrimPrefix(kind, "env-") {
			case "bytes":
				for i, t := range terms {
					var b uint64
					if 2*i+2 <= len(fv.Hex) {
						fmt.Sscanf(fv.Hex[2*i:2*i+2], "%02x", &b)
					}
					w.assumeNoCheck(w.tt.Eq(t, w.tt.BV(8, b)))
				}
			case "bool":
				w.assumeNoCheck(w.tt.Eq(terms[0], w.tt.Bool(fv.Int != 0)))
			default:
				w.assumeNoCheck(w.tt.Eq(terms[0], w.tt.BV(terms[0].w, uint64(fv.Int))))
			}
		}
		w.forcedPos++
	}
}

// forcedChoice: in model replay a Choose takes the recorded alternative.
func (w *World) forcedChoice(label string) (int, bool) {
	if w.forced == nil {
		return 0, false
	}
	defer func() { w.forcedPos++ }()
	if w.forcedPos < len(w.forced) && w.forced[w.forcedPos].Label == label {
		return int(w.forced[w.forcedPos].Int), true
	}
	return 0, false
}

// modelVector: values of the nondet log under a model of (assertions + extra).
func (w *World) modelVector(extra ...*Term) ([]ndValue, Result) {
	var want []*Term
	for _, e := range w.ndlog {
		want = append(want, e.terms...)
	}
	var vals []*Term
	var r Result = Unknown
	if v, ok := w.ext["prefer"]; ok && len(v.([]*Term)) > 0 {
		// soft constraints: all at once if possible, else greedily one by one
		prefs := v.([]*Term)
		all := append(append([]*Term{}, extra...), prefs...)
		if w.sol.CheckWith(all...) == Sat {
			vals, r = w.sol.ModelWith(want, all...)
		} else if w.sol.CheckWith(extra...) == Sat {
			kept := append([]*Term{}, extra...)
			for i, p := range prefs {
				if i > 400 {
					break
				}
				if w.sol.CheckWith(append(kept, p)...) == Sat {
					kept = append(kept, p)
				}
			}
			vals, r = w.sol.ModelWith(want, kept...)
		}
	}
	if r != Sat {
		vals, r = w.sol.ModelWith(want, extra...)
	}
	if r != Sat {
		return nil, r
	}
	var out []ndValue
	k := 0
	for _, e := range w.ndlog {
		nv := ndValue{Label: e.Label, Kind: e.Kind}
		switch strings.TrimPrefix(e.Kind, "env-") {
		case "choose":
			nv.Int = e.conc
		case "bytes":
			var sb strings.Builder
			for range e.terms {
				fmt.Fprintf(&sb, "%02x", vals[k].k)
				k++
			}
			nv.Hex = sb.String()
		case "bool":
			if vals[k] == w.tt.T {
				nv.Int = 1
			}
			k++
		default:
			v := vals[k]
			k++
			if v.w <= 64 {
				nv.Int = int64(v.k)
				if strings.TrimPrefix(e.Kind, "env-") == "i64" || e.Kind == "range" {
					nv.Int = sext64(v.k, v.w)
				}
			}
			nv.Hex = cBig(v).Text(16)
		}
		out = append(out, nv)
	}
	return out, Sat
}

// ---------------------------------------------------------------- obligations

func (w *World) checkObligation(c *Term, name, kind, msg, where string) {
	w.res.Obligations[name]++
	if c == w.tt.T {
		w.res.Discharged[name]++
		return
	}
	if w.replaying() {
		// decided on an earlier visit of this prefix
		w.res.Obligations[name]--
		w.pc = append(w.pc, c)
		return
	}
	nc := w.tt.Not(c)
	r := w.sol.CheckWith(nc)
	switch r {
	case Unsat:
		w.res.Discharged[name]++
		return
	case Unknown:
		w.res.Unknown = append(w.res.Unknown, "obligation "+name)
		return
	}
	w.recordFailure(nc, name, kind, msg, where)
	// continue on the passing side
	w.assume(c, "after failed obligation "+name)
}

// recordFailure classifies a feasible failure (pc ∧ fail) against the finding
// predicates declared on this path.
func (w *World) recordFailure(fail *Term, name, kind, msg, where string) {
	f := &Failure{Harness: w.harness, Obligation: name, Kind: kind, Msg: msg, Where: where, FindVecs: map[string][]ndValue{}}
	var open []*Term
	for _, fd := range w.findings {
		if !w.openFinds[fd.id] || !w.findingCovers(fd.id, name) {
			continue
		}
		open = append(open, fd.cond)
		vec, r := w.modelVector(fail, fd.cond)
		if r == Sat {
			f.Findings = append(f.Findings, fd.id)
			f.FindVecs[fd.id] = vec
		} else if r == Unknown {
			w.res.Unknown = append(w.res.Unknown, "finding classification "+fd.id)
		}
	}
	extra := []*Term{fail}
	if len(open) > 0 {
		extra = append(extra, w.tt.Not(w.tt.Or(open...)))
	}
	vec, r := w.modelVector(extra...)
	if r == Sat {
		f.Unexplain = true
		f.Vector = vec
	} else if r == Unknown {
		w.res.Unknown = append(w.res.Unknown, "failure classification "+name)
	}
	for _, d := range w.decisions {
		f.Decisions = append(f.Decisions, d.label)
	}
	if len(f.Decisions) > 40 {
		f.Decisions = f.Decisions[len(f.Decisions)-40:]
	}
	// keep one failure per (obligation, classification)
	key := name + "|" + strings.Join(f.Findings, ",") + fmt.Sprint(f.Unexplain)
	if w.failSeen[key] {
		return
	}
	w.failSeen[key] = true
	w.res.Failures = append(w.res.Failures, f)
}

func (w *World) findingCovers(fid, obligation string) bool {
	pats := w.findObl[fid]
	if len(pats) == 0 {
		return true
	}
	for _, p := range pats {
		if p == obligation || (strings.HasSuffix(p, "*") && strings.HasPrefix(obligation, strings.TrimSuffix(p, "*"))) {
			return true
		}
	}
	return false
}

func (w *World) reach(name string) {
	if _, ok := w.res.Reached[name]; ok {
		return
	}
	if w.replaying() {
		return
	}
	vec, r := w.modelVector()
	if r == Sat {
		w.res.Reached[name] = vec
	}
}

// ---------------------------------------------------------------- path execution

type Harness struct {
	Pkg    string // package path
	Func   string // function name
	Bounds *Bounds
}

func (w *World) fnByName(pkgPath, name string) *ssa.Function {
	for _, p := range w.prog.AllPackages() {
		if p.Pkg.Path() == pkgPath {
			if f := p.Func(name); f != nil {
				return f
			}
		}
	}
	return nil
}

func (w *World) resetPath() {
	w.undoTrail(0)
	w.dpos = 0
	w.pc = w.pc[:0]
	w.ndlog = w.ndlog[:0]
	w.findings = w.findings[:0]
	w.steps = 0
	w.forcedPos = 0
	w.tt.nfresh = 0
	w.threads = w.threads[:0]
	w.killing = false
	for k := range w.ext {
		delete(w.ext, k)
	}
}

// Explore runs the harness function over all feasible paths.
func (w *World) Explore(h Harness, openFinds map[string]bool) *HarnessResult {
	t0 := time.Now()
	res := &HarnessResult{Name: h.Pkg + "." + h.Func,
		Obligations: map[string]int{}, Discharged: map[string]int{}, Reached: map[string][]ndValue{},
		FnsEncoded: map[string]bool{}, Models: map[string]bool{}, Cuts: map[string]int{}, Chooses: map[string]int{}}
	w.res = res
	w.harness = h.Func
	w.openFinds = openFinds
	w.failSeen = map[string]bool{}
	if h.Bounds != nil {
		w.bounds = *h.Bounds
	}
	fn := w.fnByName(h.Pkg, h.Func)
	if fn == nil {
		res.EngineErr = append(res.EngineErr, "harness function not found: "+h.Pkg+"."+h.Func)
		return res
	}
	w.sol = NewSolver(w.tt, w.bounds.QueryMs)
	defer func() {
		res.Solver = w.sol.stats
		w.sol.Close()
		res.Wall = time.Since(t0)
		w.dumpForks()
	}()
	// package initialisation (once per world; not undone)
	w.trailOn = false
	w.initPackages(fn.Pkg)
	w.fixRandReader()
	w.trailOn = true
	w.decisions = nil
	if os.Getenv("GOSYM_WATCH") != "" {
		stop := make(chan struct{})
		defer close(stop)
		go func() {
			for {
				select {
				case <-stop:
					return
				case <-time.After(5 * time.Second):
					if c := w.cur; c != nil && c.top != nil {
						fmt.Fprintf(os.Stderr, "WATCH path=%d steps=%d decisions=%d\n%s", w.pathNo, w.steps, len(w.decisions), indent(w.where(c.top)))
					}
				}
			}
		}()
	}
	lastReport := time.Now()
	for {
		if time.Since(lastReport) > 15*time.Second {
			lastReport = time.Now()
			fmt.Fprintf(os.Stderr, "  .. %s: %d paths, %d queries, depth %d, %v\n", h.Func, res.Paths, w.sol.stats.Queries, len(w.decisions), time.Since(t0).Round(time.Second))
		}
		if w.bounds.WallS > 0 && time.Since(t0) > time.Duration(w.bounds.WallS)*time.Second {
			res.Unwind = append(res.Unwind, fmt.Sprintf("wall budget %ds exhausted after %d paths", w.bounds.WallS, res.Paths))
			break
		}
		w.resetPath()
		w.pathNo++
		w.runPath(fn)
		res.Paths++
		res.Steps += w.steps
		if w.bounds.MaxPaths > 0 && res.Paths >= w.bounds.MaxPaths {
			res.Unwind = append(res.Unwind, fmt.Sprintf("path budget %d exhausted", w.bounds.MaxPaths))
			break
		}
		if len(res.EngineErr) > 3 || len(res.Unsupported) > 20 {
			break
		}
		if !w.backtrack() {
			break
		}
	}
	w.undoTrail(0)
	return res
}

func (w *World) runPath(fn *ssa.Function) {
	main := &Thread{id: 0, w: w, name: "main", wake: make(chan struct{}), started: true}
	w.threads = append(w.threads, main)
	w.cur = main
	defer w.killThreads()
	defer func() {
		r := recover()
		if r == nil {
			return
		}
		w.handlePathPanic(r, main)
	}()
	w.call(main, nil, fn, nil, nil)
}

func (w *World) handlePathPanic(r interface{}, t *Thread) {
	switch p := r.(type) {
	case pathEnd:
		switch p.kind {
		case "infeasible":
			w.res.Infeasible++
		case "unsupported":
			msg := p.msg
			if c := w.cur; !strings.Contains(msg, " in ") && c != nil && c.top != nil {
				// raised below an intrinsic without a frame: attribute to the innermost interpreted frames
				lines := strings.Split(strings.TrimSpace(w.where(c.top)), "\n")
				if len(lines) > 3 {
					lines = lines[:3]
				}
				msg += " in " + strings.Join(lines, " < ")
			}
			w.res.Unsupported = appendUniq(w.res.Unsupported, msg)
		case "unwind":
			w.res.Unwind = appendUniq(w.res.Unwind, p.msg)
		case "engine":
			w.res.EngineErr = appendUniq(w.res.EngineErr, p.msg)
		case "unknown", "stop", "killed", "exit":
		}
	case goPanic:
		// uncaught panic in the code under test
		msg := w.panicString(p.v)
		if w.replayingStrict() {
			w.res.EngineErr = appendUniq(w.res.EngineErr, fmt.Sprintf("panic %q while re-executing a decision prefix (dpos=%d of %d): nondeterminism\n%s", msg, w.dpos, len(w.decisions), p.where))
		}
		if !w.replayingStrict() {
			w.res.Obligations[w.harness+".nopanic"]++
			w.recordFailure(w.tt.T, w.harness+".nopanic", "panic", msg, p.where)
		}
	default:
		w.res.EngineErr = appendUniq(w.res.EngineErr, fmt.Sprintf("engine panic: %v\n%s", r, trimStack(debug.Stack())))
	}
}

// a panic is attributed to the path that reaches it first; a path is new once
// its whole decision prefix has been consumed.
func (w *World) replayingStrict() bool { return w.replaying() }

func trimStack(b []byte) string {
	s := string(b)
	lines := strings.Split(s, "\n")
	if len(lines) > 40 {
		lines = lines[:40]
	}
	return strings.Join(lines, "\n")
}

func appendUniq(l []string, s string) []string {
	for _, x := range l {
		if x == s {
			return l
		}
	}
	return append(l, s)
}

func (w *World) panicString(v Value) string {
	if i, ok := v.(Iface); ok {
		if s, ok := i.v.(Str); ok {
			if c, ok := s.Concrete(); ok {
				return c
			}
		}
		if i.t != nil {
			// error values: try Error()
			if m := w.lookupMethod(i.t, nil, "Error"); m != nil {
				var out string
				func() {
					defer func() {
						if r := recover(); r != nil {
							out = fmt.Sprintf("<%v>", i.t)
						}
					}()
					r := w.call(w.cur, nil, m, []Value{i.v}, nil)
					if s, ok := r.(Str); ok {
						if c, ok := s.Concrete(); ok {
							out = c
							return
						}
					}
					out = fmt.Sprintf("<%v>", i.t)
				}()
				return out
			}
			return fmt.Sprintf("<%v> %s", i.t, w.show(i.v))
		}
	}
	return w.show(v)
}

func (w *World) where(fr *frame) string {
	var sb strings.Builder
	n := 0
	for f := fr; f != nil && n < 12; f = f.caller {
		pos := ""
		if f.curInstr != nil && f.curInstr.Pos().IsValid() {
			p := w.prog.Fset.Position(f.curInstr.Pos())
			pos = fmt.Sprintf(" %s:%d", shortPath(p.Filename), p.Line)
		}
		fmt.Fprintf(&sb, "%s%s\n", f.fn.String(), pos)
		n++
	}
	return sb.String()
}

func shortPath(p string) string {
	if i := strings.Index(p, "/mirror/"); i >= 0 {
		return p[i+8:]
	}
	if i := strings.Index(p, "/pkg/mod/"); i >= 0 {
		return p[i+9:]
	}
	return p
}

// ---------------------------------------------------------------- package init

var initSkip = map[string]bool{
	"runtime": true, "reflect": true, "unsafe": true, "internal/abi": true, "internal/cpu": true,
	"runtime/internal/sys": true, "internal/goarch": true, "internal/bytealg": true,
	"syscall": false,
}

func repoPkg(path string) bool {
	return strings.HasPrefix(path, "github.com/refraction-networking/conjure")
}

// initPackages runs package initialisers in dependency order.  Repository
// packages are initialised strictly; all others best-effort (a global whose
// initialiser cannot be executed keeps its zero value).
func (w *World) initPackages(root *ssa.Package) {
	var visit func(p *ssa.Package)
	visit = func(p *ssa.Package) {
		if p == nil || w.initDone[p] {
			return
		}
		w.initDone[p] = true
		imps := p.Pkg.Imports()
		sort.Slice(imps, func(i, j int) bool { return imps[i].Path() < imps[j].Path() })
		for _, imp := range imps {
			visit(w.prog.Package(imp))
		}
		w.initOne(p)
	}
	visit(root)
}

var initMu sync.Mutex

func (w *World) initOne(p *ssa.Package) {
	path := p.Pkg.Path()
	if initSkip[path] || strings.HasPrefix(path, "runtime/") || strings.HasPrefix(path, "internal/runtime") {
		return
	}
	initFn := p.Func("init")
	if initFn == nil || len(initFn.Blocks) == 0 {
		return
	}
	main := &Thread{id: 0, w: w, name: "init"}
	w.cur = main
	w.threads = []*Thread{main}
	strict := repoPkg(path)
	w.tolerant++
	defer func() { w.tolerant-- }()
	defer func() {
		if r := recover(); r != nil {
			if strict || os.Getenv("GOSYM_INITDEBUG") != "" {
				fmt.Fprintf(os.Stderr, "init %s: %v\n", path, describePanic(w, r))
			}
		}
	}()
	w.steps = 0
	w.callInit(main, initFn)
}

func describePanic(w *World, r interface{}) string {
	switch p := r.(type) {
	case pathEnd:
		return p.kind + ": " + p.msg
	case goPanic:
		return "panic: " + w.panicString(p.v) + "\n" + p.where
	}
	if w.tolerant > 0 {
		return fmt.Sprintf("%v", r)
	}
	return fmt.Sprintf("%v\n%s", r, trimStack(debug.Stack()))
}

func (w *World) zeroOrNil(t types.Type) (v Value) {
	defer func() {
		if recover() != nil {
			v = nil
		}
	}()
	return w.zero(t)
}

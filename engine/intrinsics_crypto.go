package main

// Cryptographic primitives as uninterpreted functions: equal arguments give
// equal results, nothing else is assumed (no collision freeness), plus the
// algebraic facts instantiated at use sites (ECDH symmetry, elligator inverse,
// CTR = xor with a key stream, open(seal(m)) = m).

import (
	"encoding/hex"
	"fmt"
	"go/types"
	"strings"

	"golang.org/x/tools/go/ssa"
)

type modelObj struct {
	kind    string
	a, b, c []*Term // e.g. hkdf: secret, salt, info; hmac: key, msg
	off     int
}

func (w *World) objData() map[*Value]*modelObj {
	if v, ok := w.ext["objdata"]; ok {
		return v.(map[*Value]*modelObj)
	}
	m := map[*Value]*modelObj{}
	w.ext["objdata"] = m
	return m
}

// bitsArg: concrete byte strings become part of the UF name, symbolic ones an argument.
func (w *World) bitsArg(tag string, bs []*Term) (namePart string, arg *Term) {
	if len(bs) == 0 {
		return tag + "0", nil
	}
	if cb, ok := w.concBytes(bs); ok {
		return tag + "x" + hex.EncodeToString(cb), nil
	}
	acc := bs[0]
	for _, b := range bs[1:] {
		acc = w.tt.Concat(acc, b)
	}
	return fmt.Sprintf("%s%d", tag, len(bs)), acc
}

func (w *World) ufBytes(name string, outBytes int, args ...*Term) []*Term {
	var as []*Term
	for _, a := range args {
		if a != nil {
			as = append(as, a)
		}
	}
	r := w.tt.UF(name, 8*outBytes, as...)
	out := make([]*Term, outBytes)
	for i := 0; i < outBytes; i++ {
		lo := 8 * (outBytes - 1 - i)
		out[i] = w.tt.Extract(r, lo+7, lo)
	}
	return out
}

// hkdfByte: byte number idx of the HKDF-SHA256 stream for (secret, salt, info).
func (w *World) hkdfByte(secret, salt, info []*Term, idx int) *Term {
	n1, a1 := w.bitsArg("k", secret)
	n2, a2 := w.bitsArg("s", salt)
	n3, a3 := w.bitsArg("i", info)
	var as []*Term
	for _, a := range []*Term{a1, a2, a3} {
		if a != nil {
			as = append(as, a)
		}
	}
	as = append(as, w.tt.BV(16, uint64(idx)))
	return w.tt.UF("hkdf_"+n1+"_"+n2+"_"+n3, 8, as...)
}

func (w *World) hmacSum(key, msg []*Term) []*Term {
	n1, a1 := w.bitsArg("k", key)
	n2, a2 := w.bitsArg("m", msg)
	return w.ufBytes("hmacsha256_"+n1+"_"+n2, 32, a1, a2)
}

func (w *World) sha256Sum(msg []*Term) []*Term {
	n, a := w.bitsArg("m", msg)
	return w.ufBytes("sha256_"+n, 32, a)
}

func cat(bs []*Term, tt *TermTable) *Term {
	acc := bs[0]
	for _, b := range bs[1:] {
		acc = tt.Concat(acc, b)
	}
	return acc
}

func (w *World) split(t *Term) []*Term {
	n := t.w / 8
	out := make([]*Term, n)
	for i := 0; i < n; i++ {
		lo := 8 * (n - 1 - i)
		out[i] = w.tt.Extract(t, lo+7, lo)
	}
	return out
}

// ---- curve25519 model: pub(a) = UF; dlog(pub(a)) = a instantiated; dh symmetric by construction
// keyTable: byte-term ids of a value produced by the model -> the term it stands for,
// so that the algebra (ECDH symmetry, elligator inverse) is applied syntactically
// and the solver never has to prove it.
func (w *World) keyTable(name string) map[string]*Term {
	if v, ok := w.ext["keytab:"+name]; ok {
		return v.(map[string]*Term)
	}
	m := map[string]*Term{}
	w.ext["keytab:"+name] = m
	return m
}

func idsKey(bs []*Term) string {
	var sb strings.Builder
	for _, b := range bs {
		fmt.Fprintf(&sb, "%d,", b.id)
	}
	return sb.String()
}

func (w *World) x25519Pub(priv *Term) *Term {
	p := w.tt.UF("x25519_pub", 256, priv)
	w.keyTable("pub2priv")[idsKey(w.split(p))] = priv
	w.assumeNoCheck(w.tt.Eq(w.tt.UF("x25519_dlog", 256, p), priv))
	w.assumeNoCheck(w.tt.Not(w.tt.UF("x25519_loworder", 0, p)))
	return p
}

func (w *World) x25519DH(scalar, point *Term) *Term {
	if other, ok := w.keyTable("pub2priv")[idsKey(w.split(point))]; ok {
		// a public key the model produced: dh(a, pub(b)) = dh(b, pub(a)) by construction
		lo, hi := scalar, other
		if lo.id > hi.id {
			lo, hi = hi, lo
		}
		return w.tt.UF("x25519_dh", 256, lo, hi)
	}
	d := w.tt.UF("x25519_dlog", 256, point)
	lt := w.tt.Cmp(OpULt, scalar, d)
	lo := w.tt.Ite(lt, scalar, d)
	hi := w.tt.Ite(lt, d, scalar)
	return w.tt.UF("x25519_dh", 256, lo, hi)
}

func arrCell(p *Value) Array { return (*p).(Array) }

func (w *World) arrTerms(a Array) []*Term {
	out := make([]*Term, len(a))
	for i := range a {
		out[i] = a[i].(*Term)
	}
	return out
}

func (w *World) storeBytes(dst []Value, src []*Term) {
	for i := range src {
		if i < len(dst) {
			w.store(&dst[i], src[i])
		}
	}
}

func (w *World) newModelObj(fr *frame, pkgPath, typeName string, mo *modelObj) (Iface, *Value) {
	pkg := w.prog.ImportedPackage(pkgPath)
	if pkg == nil {
		w.unsupported(fr, "package "+pkgPath+" not loaded")
	}
	tm := pkg.Type(typeName)
	if tm == nil {
		w.unsupported(fr, "type "+pkgPath+"."+typeName+" not found")
	}
	t := tm.Object().Type()
	cell := new(Value)
	*cell = w.zero(t)
	w.objData()[cell] = mo
	return Iface{t: types.NewPointer(t), v: cell}, cell
}

func (w *World) getObj(fr *frame, v Value) *modelObj {
	p, _ := v.(*Value)
	mo := w.objData()[p]
	if mo == nil {
		w.unsupported(fr, "crypto object not created by the model")
	}
	return mo
}

func init() {
	const hk = "golang.org/x/crypto/hkdf"
	reg(hk+".New", func(w *World, t *Thread, fr *frame, fn *ssa.Function, args []Value) Value {
		mo := &modelObj{kind: "hkdf", a: w.bytesOf(args[1]), b: w.bytesOf(args[2]), c: w.bytesOf(args[3])}
		itf, _ := w.newModelObj(fr, hk, "hkdf", mo)
		return itf
	})
	reg("(*"+hk+".hkdf).Read", func(w *World, t *Thread, fr *frame, fn *ssa.Function, args []Value) Value {
		mo := w.getObj(fr, args[0])
		p := args[1].([]Value)
		if mo.off+len(p) > 255*32 {
			return Tuple{w.tt.BV(64, 0), w.mkError("hkdf: entropy limit reached")}
		}
		for i := range p {
			w.store(&p[i], w.hkdfByte(mo.a, mo.b, mo.c, mo.off+i))
		}
		mo.off += len(p)
		return Tuple{w.tt.BV(64, uint64(len(p))), w.nilError()}
	})

	reg("crypto/hmac.New", func(w *World, t *Thread, fr *frame, fn *ssa.Function, args []Value) Value {
		mo := &modelObj{kind: "hmac", a: w.bytesOf(args[1])}
		itf, _ := w.newModelObj(fr, "crypto/hmac", "hmac", mo)
		return itf
	})
	reg("(*crypto/hmac.hmac).Write", func(w *World, t *Thread, fr *frame, fn *ssa.Function, args []Value) Value {
		mo := w.getObj(fr, args[0])
		p := w.bytesOf(args[1])
		mo.b = append(mo.b, p...)
		return Tuple{w.tt.BV(64, uint64(len(p))), w.nilError()}
	})
	reg("(*crypto/hmac.hmac).Sum", func(w *World, t *Thread, fr *frame, fn *ssa.Function, args []Value) Value {
		mo := w.getObj(fr, args[0])
		in := args[1].([]Value)
		out := make([]Value, 0, len(in)+32)
		for _, x := range in {
			out = append(out, x)
		}
		for _, x := range w.hmacSum(mo.a, mo.b) {
			out = append(out, x)
		}
		return out
	})
	reg("(*crypto/hmac.hmac).Reset", func(w *World, t *Thread, fr *frame, fn *ssa.Function, args []Value) Value {
		w.getObj(fr, args[0]).b = nil
		return nil
	})
	reg("(*crypto/hmac.hmac).Size", func(w *World, t *Thread, fr *frame, fn *ssa.Function, args []Value) Value { return w.tt.BV(64, 32) })
	reg("(*crypto/hmac.hmac).BlockSize", func(w *World, t *Thread, fr *frame, fn *ssa.Function, args []Value) Value { return w.tt.BV(64, 64) })
	reg("crypto/hmac.Equal", func(w *World, t *Thread, fr *frame, fn *ssa.Function, args []Value) Value {
		a, b := w.bytesOf(args[0]), w.bytesOf(args[1])
		if len(a) != len(b) {
			return w.tt.F
		}
		return w.strEq(w.mkStr(a), w.mkStr(b))
	})
	reg("crypto/subtle.ConstantTimeCompare", func(w *World, t *Thread, fr *frame, fn *ssa.Function, args []Value) Value {
		a, b := w.bytesOf(args[0]), w.bytesOf(args[1])
		if len(a) != len(b) {
			return w.tt.BV(64, 0)
		}
		return w.tt.Ite(w.strEq(w.mkStr(a), w.mkStr(b)), w.tt.BV(64, 1), w.tt.BV(64, 0))
	})
	reg("crypto/sha256.Sum256", func(w *World, t *Thread, fr *frame, fn *ssa.Function, args []Value) Value {
		out := make(Array, 32)
		for i, b := range w.sha256Sum(w.bytesOf(args[0])) {
			out[i] = b
		}
		return out
	})
	reg("crypto/sha256.New", func(w *World, t *Thread, fr *frame, fn *ssa.Function, args []Value) Value {
		itf, _ := w.newModelObj(fr, "crypto/sha256", "digest", &modelObj{kind: "sha256"})
		return itf
	})
	reg("(*crypto/sha256.digest).Write", func(w *World, t *Thread, fr *frame, fn *ssa.Function, args []Value) Value {
		mo := w.getObj(fr, args[0])
		p := w.bytesOf(args[1])
		mo.b = append(mo.b, p...)
		return Tuple{w.tt.BV(64, uint64(len(p))), w.nilError()}
	})
	reg("(*crypto/sha256.digest).Sum", func(w *World, t *Thread, fr *frame, fn *ssa.Function, args []Value) Value {
		mo := w.getObj(fr, args[0])
		in := args[1].([]Value)
		out := append([]Value{}, in...)
		for _, x := range w.sha256Sum(mo.b) {
			out = append(out, x)
		}
		return out
	})
	reg("(*crypto/sha256.digest).Reset", func(w *World, t *Thread, fr *frame, fn *ssa.Function, args []Value) Value {
		w.getObj(fr, args[0]).b = nil
		return nil
	})
	reg("(*crypto/sha256.digest).Size", func(w *World, t *Thread, fr *frame, fn *ssa.Function, args []Value) Value { return w.tt.BV(64, 32) })
	reg("(*crypto/sha256.digest).BlockSize", func(w *World, t *Thread, fr *frame, fn *ssa.Function, args []Value) Value { return w.tt.BV(64, 64) })

	// ---- curve25519 / elligator
	const c25519 = "golang.org/x/crypto/curve25519"
	reg(c25519+".X25519", func(w *World, t *Thread, fr *frame, fn *ssa.Function, args []Value) Value {
		sc, pt := w.bytesOf(args[0]), w.bytesOf(args[1])
		if len(sc) != 32 {
			return Tuple{[]Value(nil), w.mkError("bad scalar length")}
		}
		if len(pt) != 32 {
			return Tuple{[]Value(nil), w.mkError("bad point length")}
		}
		s, p := cat(sc, w.tt), cat(pt, w.tt)
		// Basepoint -> public key
		if cb, ok := w.concBytes(pt); ok && cb[0] == 9 && allZero(cb[1:]) {
			return Tuple{w.byteSlice(w.split(w.x25519Pub(s))), w.nilError()}
		}
		_, knownPub := w.keyTable("pub2priv")[idsKey(pt)]
		low := w.tt.UF("x25519_loworder", 0, p)
		if !knownPub && w.decideBool(low, "X25519 low order point") {
			return Tuple{[]Value(nil), w.mkError("bad input point: low order point")}
		}
		return Tuple{w.byteSlice(w.split(w.x25519DH(s, p))), w.nilError()}
	})
	reg(c25519+".ScalarBaseMult", func(w *World, t *Thread, fr *frame, fn *ssa.Function, args []Value) Value {
		dst, sc := arrCell(args[0].(*Value)), arrCell(args[1].(*Value))
		p := w.x25519Pub(cat(w.arrTerms(sc), w.tt))
		for i, b := range w.split(p) {
			w.store(&dst[i], b)
		}
		return nil
	})
	const ex = "github.com/refraction-networking/ed25519/extra25519"
	reg(ex+".ScalarBaseMult", func(w *World, t *Thread, fr *frame, fn *ssa.Function, args []Value) Value {
		pub, rep, priv := arrCell(args[0].(*Value)), arrCell(args[1].(*Value)), arrCell(args[2].(*Value))
		s := cat(w.arrTerms(priv), w.tt)
		// the first call on a path may fail (no representative for this key); later calls succeed
		n := 0
		if v, ok := w.ext["elligator_calls"]; ok {
			n = v.(int)
		}
		w.ext["elligator_calls"] = n + 1
		if n == 0 {
			ok := w.tt.UF("elligator_ok", 0, s)
			if !w.decideBool(ok, "elligator representable") {
				return w.tt.F
			}
		} else {
			w.res.Cuts["elligator-retries<=1"]++
			w.assume(w.tt.UF("elligator_ok", 0, s), "elligator representable")
		}
		p := w.x25519Pub(s)
		r := w.tt.UF("elligator_rep", 256, s)
		// representative has its two top bits (of byte 31) clear
		rb := w.split(r)
		rb[31] = w.tt.Bin(OpAnd, rb[31], w.tt.BV(8, 0x3f))
		rr := cat(rb, w.tt)
		w.assumeNoCheck(w.tt.Eq(w.tt.UF("elligator_rep2pub", 256, rr), p))
		w.keyTable("rep2pub")[idsKey(rb)] = p
		for i, b := range w.split(p) {
			w.store(&pub[i], b)
		}
		for i, b := range rb {
			w.store(&rep[i], b)
		}
		return w.tt.T
	})
	reg(ex+".RepresentativeToPublicKey", func(w *World, t *Thread, fr *frame, fn *ssa.Function, args []Value) Value {
		pub, rep := arrCell(args[0].(*Value)), arrCell(args[1].(*Value))
		p := w.tt.UF("elligator_rep2pub", 256, cat(w.arrTerms(rep), w.tt))
		if kp, ok := w.keyTable("rep2pub")[idsKey(w.arrTerms(rep))]; ok {
			p = kp
		}
		for i, b := range w.split(p) {
			w.store(&pub[i], b)
		}
		return nil
	})

	// ---- AES-CTR / AES-GCM
	reg("crypto/aes.NewCipher", func(w *World, t *Thread, fr *frame, fn *ssa.Function, args []Value) Value {
		key := w.bytesOf(args[0])
		switch len(key) {
		case 16, 24, 32:
		default:
			return Tuple{Iface{}, w.mkError("crypto/aes: invalid key size")}
		}
		itf, _ := w.newModelObj(fr, "crypto/aes", "aesCipher", &modelObj{kind: "aes", a: key})
		return Tuple{itf, w.nilError()}
	})
	reg("crypto/cipher.NewCTR", func(w *World, t *Thread, fr *frame, fn *ssa.Function, args []Value) Value {
		blk := w.getObj(fr, args[0].(Iface).v)
		iv := w.bytesOf(args[1])
		if len(iv) != 16 {
			panic(goPanic{v: Iface{t: types.Typ[types.String], v: Str{s: "cipher.NewCTR: IV length must equal block size"}}, where: w.where(fr)})
		}
		itf, _ := w.newModelObj(fr, "crypto/cipher", "ctr", &modelObj{kind: "ctr", a: blk.a, b: iv})
		return itf
	})
	reg("(*crypto/cipher.ctr).XORKeyStream", func(w *World, t *Thread, fr *frame, fn *ssa.Function, args []Value) Value {
		mo := w.getObj(fr, args[0])
		dst, src := args[1].([]Value), w.bytesOf(args[2])
		if len(dst) < len(src) {
			panic(goPanic{v: Iface{t: types.Typ[types.String], v: Str{s: "crypto/cipher: output smaller than input"}}, where: w.where(fr)})
		}
		k, iv := cat(mo.a, w.tt), cat(mo.b, w.tt)
		for i, b := range src {
			ks := w.tt.UF(fmt.Sprintf("aesctr_ks%d", len(mo.a)), 8, k, iv, w.tt.BV(32, uint64(mo.off+i)))
			w.store(&dst[i], w.tt.Bin(OpXor, b, ks))
		}
		mo.off += len(src)
		return nil
	})
	reg("crypto/cipher.NewGCM", func(w *World, t *Thread, fr *frame, fn *ssa.Function, args []Value) Value {
		blk := w.getObj(fr, args[0].(Iface).v)
		itf, _ := w.newModelObj(fr, "crypto/cipher", "gcm", &modelObj{kind: "gcm", a: blk.a})
		return Tuple{itf, w.nilError()}
	})
	gcmKS := func(w *World, mo *modelObj, nonce *Term, i int) *Term {
		return w.tt.UF(fmt.Sprintf("aesgcm_ks%d", len(mo.a)), 8, cat(mo.a, w.tt), nonce, w.tt.BV(32, uint64(i)))
	}
	gcmTag := func(w *World, mo *modelObj, nonce *Term, ct, ad []*Term) []*Term {
		n1, a1 := w.bitsArg("c", ct)
		n2, a2 := w.bitsArg("a", ad)
		return w.ufBytes(fmt.Sprintf("aesgcm_tag%d_%s_%s", len(mo.a), n1, n2), 16, cat(mo.a, w.tt), nonce, a1, a2)
	}
	reg("(*crypto/cipher.gcm).NonceSize", func(w *World, t *Thread, fr *frame, fn *ssa.Function, args []Value) Value { return w.tt.BV(64, 12) })
	reg("(*crypto/cipher.gcm).Overhead", func(w *World, t *Thread, fr *frame, fn *ssa.Function, args []Value) Value { return w.tt.BV(64, 16) })
	reg("(*crypto/cipher.gcm).Seal", func(w *World, t *Thread, fr *frame, fn *ssa.Function, args []Value) Value {
		mo := w.getObj(fr, args[0])
		dst, nonce, pt, ad := args[1].([]Value), w.bytesOf(args[2]), w.bytesOf(args[3]), w.bytesOf(args[4])
		if len(nonce) != 12 {
			panic(goPanic{v: Iface{t: types.Typ[types.String], v: Str{s: "crypto/cipher: incorrect nonce length given to GCM"}}, where: w.where(fr)})
		}
		nt := cat(nonce, w.tt)
		ct := make([]*Term, len(pt))
		for i, b := range pt {
			ct[i] = w.tt.Bin(OpXor, b, gcmKS(w, mo, nt, i))
		}
		out := append([]Value{}, dst...)
		out = append(out, w.byteSlice(ct)...)
		out = append(out, w.byteSlice(gcmTag(w, mo, nt, ct, ad))...)
		return out
	})
	reg("(*crypto/cipher.gcm).Open", func(w *World, t *Thread, fr *frame, fn *ssa.Function, args []Value) Value {
		mo := w.getObj(fr, args[0])
		dst, nonce, ct, ad := args[1].([]Value), w.bytesOf(args[2]), w.bytesOf(args[3]), w.bytesOf(args[4])
		if len(nonce) != 12 {
			panic(goPanic{v: Iface{t: types.Typ[types.String], v: Str{s: "crypto/cipher: incorrect nonce length given to GCM"}}, where: w.where(fr)})
		}
		if len(ct) < 16 {
			return Tuple{[]Value(nil), w.mkError("cipher: message authentication failed")}
		}
		nt := cat(nonce, w.tt)
		body, tag := ct[:len(ct)-16], ct[len(ct)-16:]
		want := gcmTag(w, mo, nt, body, ad)
		ok := w.strEq(w.mkStr(tag), w.mkStr(want))
		if !w.decideBool(ok, "GCM tag check") {
			return Tuple{[]Value(nil), w.mkError("cipher: message authentication failed")}
		}
		out := append([]Value{}, dst...)
		for i, b := range body {
			out = append(out, w.tt.Bin(OpXor, b, gcmKS(w, mo, nt, i)))
		}
		if out == nil {
			out = []Value{}
		}
		return Tuple{out, w.nilError()}
	})

	// ---- crypto/rand.Reader object
	reg("(*crypto/rand.reader).Read", func(w *World, t *Thread, fr *frame, fn *ssa.Function, args []Value) Value {
		b := args[1].([]Value)
		for i := range b {
			if v, ok := w.ext["fixrandom"]; ok {
				w.store(&b[i], v.(*Term))
			} else {
				w.store(&b[i], w.cryptoRandByte())
			}
		}
		return Tuple{w.tt.BV(64, uint64(len(b))), w.nilError()}
	})

	// ---- harness-visible reference functions (same UFs)
	reg("verifnd.HKDF", func(w *World, t *Thread, fr *frame, fn *ssa.Function, args []Value) Value {
		secret, salt, info := w.bytesOf(args[0]), w.bytesOf(args[1]), w.bytesOf(args[2])
		off := int(w.concreteInt(fr, args[3], "HKDF offset"))
		n := int(w.concreteInt(fr, args[4], "HKDF length"))
		out := make([]Value, n)
		for i := range out {
			out[i] = w.hkdfByte(secret, salt, info, off+i)
		}
		return out
	})
	reg("verifnd.HMACSHA256", func(w *World, t *Thread, fr *frame, fn *ssa.Function, args []Value) Value {
		return w.byteSlice(w.hmacSum(w.bytesOf(args[0]), w.bytesOf(args[1])))
	})
}

func allZero(b []byte) bool {
	for _, c := range b {
		if c != 0 {
			return false
		}
	}
	return true
}

// fixRandReader installs the model behind crypto/rand.Reader if package
// initialisation could not.
func (w *World) fixRandReader() {
	pkg := w.prog.ImportedPackage("crypto/rand")
	if pkg == nil {
		return
	}
	g, ok := pkg.Members["Reader"].(*ssa.Global)
	if !ok {
		return
	}
	cellp := w.globals[g]
	tm := pkg.Type("reader")
	if tm == nil {
		return
	}
	t := tm.Object().Type()
	cell := new(Value)
	*cell = w.zero(t)
	*cellp = Iface{t: types.NewPointer(t), v: cell}
}

// cryptoRandByte: the next byte of crypto/rand - an arbitrary value (an
// uninterpreted function of a draw counter), classified as random-oracle output.
func (w *World) cryptoRandByte() *Term {
	n := 0
	if v, ok := w.ext["crandctr"]; ok {
		n = v.(int)
	}
	w.ext["crandctr"] = n + 1
	return w.tt.UF("crand", 8, w.tt.BV(32, uint64(n)))
}

package main

// File-system model for crash/fault exploration (C20): a map path -> content.
// Every mutating call is a sequence of micro-steps; before each micro-step the
// process may die (crash point) and each micro-step may fail.  On a crash the
// closure registered with verifnd.OnCrash runs (the oracle) and the path ends.

import (
	"fmt"
	"go/types"

	"golang.org/x/tools/go/ssa"
)

type fsPartial struct{ of Value } // a strict prefix of `of` (never equal to a complete content)

type fsState struct {
	files   map[string]Value // path -> []Value content
	order   []string
	onCrash Value
	steps   int
	handles map[*Value]*fsHandle
}

type fsHandle struct {
	path   string
	closed bool
}

func (w *World) fs() *fsState {
	if v, ok := w.ext["fs"]; ok {
		return v.(*fsState)
	}
	s := &fsState{files: map[string]Value{}, handles: map[*Value]*fsHandle{}}
	w.ext["fs"] = s
	return s
}

func (s *fsState) set(p string, c Value) {
	if _, ok := s.files[p]; !ok {
		s.order = append(s.order, p)
	}
	s.files[p] = c
}

func (s *fsState) del(p string) {
	delete(s.files, p)
	for i, x := range s.order {
		if x == p {
			s.order = append(s.order[:i:i], s.order[i+1:]...)
			break
		}
	}
}

// fsStep: a crash point followed by a possible failure of the micro-step.
// Returns true if the step fails.
func (w *World) fsStep(t *Thread, fr *frame, what string) bool {
	s := w.fs()
	s.steps++
	crash := w.freshND(fmt.Sprintf("crash-before:%s", what), "env-bool", 0)
	if w.decideBool(crash, "crash point") {
		if s.onCrash != nil {
			w.callValue(t, fr, s.onCrash, nil)
		}
		panic(pathEnd{"stop", "process died at " + what})
	}
	fail := w.freshND(fmt.Sprintf("fails:%s", what), "env-bool", 0)
	return w.decideBool(fail, "fs fault")
}

func (w *World) pathError(op, path, msg string) Value {
	return w.mkError(op + " " + path + ": " + msg)
}

func sameContent(a, b Value) bool {
	as, ok1 := a.([]Value)
	bs, ok2 := b.([]Value)
	if !ok1 || !ok2 || len(as) != len(bs) {
		return false
	}
	for i := range as {
		switch x := as[i].(type) {
		case ProtoTok:
			y, ok := bs[i].(ProtoTok)
			if !ok || x.name != y.name || !deepEqual(x.snap, y.snap, 0) {
				return false
			}
		case *Term:
			y, ok := bs[i].(*Term)
			if !ok || x != y {
				return false
			}
		default:
			return false
		}
	}
	return true
}

func init() {
	reg("os.WriteFile", func(w *World, t *Thread, fr *frame, fn *ssa.Function, args []Value) Value {
		name := w.concStr(fr, args[0], "file name")
		data := args[1].([]Value)
		s := w.fs()
		if w.fsStep(t, fr, "create "+name) {
			return w.pathError("open", name, "permission denied")
		}
		s.set(name, []Value{})
		if w.fsStep(t, fr, "write "+name) {
			// an arbitrary strict prefix reached the file
			s.set(name, []Value{fsPartial{data}})
			return w.pathError("write", name, "no space left on device")
		}
		s.set(name, append([]Value{}, data...))
		return w.nilError()
	})
	reg("os.Rename", func(w *World, t *Thread, fr *frame, fn *ssa.Function, args []Value) Value {
		from, to := w.concStr(fr, args[0], "file name"), w.concStr(fr, args[1], "file name")
		s := w.fs()
		if w.fsStep(t, fr, "rename "+from+" -> "+to) {
			return w.pathError("rename", from, "no such file or directory")
		}
		c, ok := s.files[from]
		if !ok {
			return w.pathError("rename", from, "no such file or directory")
		}
		s.del(from)
		s.set(to, c)
		return w.nilError()
	})
	reg("os.Remove", func(w *World, t *Thread, fr *frame, fn *ssa.Function, args []Value) Value {
		name := w.concStr(fr, args[0], "file name")
		s := w.fs()
		if w.fsStep(t, fr, "remove "+name) {
			return w.pathError("remove", name, "permission denied")
		}
		if _, ok := s.files[name]; !ok {
			e := w.pathError("remove", name, "no such file or directory")
			return e
		}
		s.del(name)
		return w.nilError()
	})
	openf := func(w *World, t *Thread, fr *frame, fn *ssa.Function, name string, trunc, create bool) Value {
		s := w.fs()
		ft := fn.Signature.Results().At(0).Type()
		if w.fsStep(t, fr, "open "+name) {
			return Tuple{(*Value)(nil), w.pathError("open", name, "permission denied")}
		}
		if _, ok := s.files[name]; !ok {
			if !create {
				return Tuple{(*Value)(nil), w.pathError("open", name, "no such file or directory")}
			}
			s.set(name, []Value{})
		} else if trunc {
			s.set(name, []Value{})
		}
		cell := new(Value)
		*cell = w.zero(deref(ft))
		s.handles[cell] = &fsHandle{path: name}
		return Tuple{cell, w.nilError()}
	}
	reg("os.Create", func(w *World, t *Thread, fr *frame, fn *ssa.Function, args []Value) Value {
		return openf(w, t, fr, fn, w.concStr(fr, args[0], "file name"), true, true)
	})
	reg("os.OpenFile", func(w *World, t *Thread, fr *frame, fn *ssa.Function, args []Value) Value {
		flag := w.concreteInt(fr, args[1], "open flags")
		return openf(w, t, fr, fn, w.concStr(fr, args[0], "file name"), flag&0x200 != 0, flag&0x40 != 0)
	})
	reg("(*os.File).Write", func(w *World, t *Thread, fr *frame, fn *ssa.Function, args []Value) Value {
		s := w.fs()
		h := s.handles[args[0].(*Value)]
		if h == nil {
			w.unsupported(fr, "write to a file not opened through the model")
		}
		data := args[1].([]Value)
		cur, _ := s.files[h.path].([]Value)
		if w.fsStep(t, fr, "write "+h.path) {
			s.set(h.path, append(append([]Value{}, cur...), fsPartial{data}))
			return Tuple{w.tt.Fresh("short", 64), w.pathError("write", h.path, "no space left on device")}
		}
		s.set(h.path, append(append([]Value{}, cur...), data...))
		return Tuple{w.tt.BV(64, uint64(len(data))), w.nilError()}
	})
	reg("(*os.File).Sync", func(w *World, t *Thread, fr *frame, fn *ssa.Function, args []Value) Value {
		s := w.fs()
		h := s.handles[args[0].(*Value)]
		if h != nil && w.fsStep(t, fr, "fsync "+h.path) {
			return w.pathError("sync", h.path, "input/output error")
		}
		return w.nilError()
	})
	reg("(*os.File).Close", func(w *World, t *Thread, fr *frame, fn *ssa.Function, args []Value) Value {
		s := w.fs()
		if p, ok := args[0].(*Value); ok && p != nil {
			if h := s.handles[p]; h != nil {
				h.closed = true
			}
		}
		return w.nilError()
	})
	reg("(*os.File).Name", func(w *World, t *Thread, fr *frame, fn *ssa.Function, args []Value) Value {
		s := w.fs()
		if h := s.handles[args[0].(*Value)]; h != nil {
			return Str{s: h.path}
		}
		return Str{}
	})
	reg("os.ReadFile", func(w *World, t *Thread, fr *frame, fn *ssa.Function, args []Value) Value {
		name := w.concStr(fr, args[0], "file name")
		s := w.fs()
		c, ok := s.files[name]
		if !ok {
			return Tuple{[]Value(nil), w.pathError("open", name, "no such file or directory")}
		}
		return Tuple{append([]Value{}, c.([]Value)...), w.nilError()}
	})

	// harness side
	reg("verifnd.OnCrash", func(w *World, t *Thread, fr *frame, fn *ssa.Function, args []Value) Value {
		w.fs().onCrash = args[0]
		return nil
	})
	reg("verifnd.FSPut", func(w *World, t *Thread, fr *frame, fn *ssa.Function, args []Value) Value {
		w.fs().set(w.concStr(fr, args[0], "file name"), append([]Value{}, args[1].([]Value)...))
		return nil
	})
	reg("verifnd.FSIs", func(w *World, t *Thread, fr *frame, fn *ssa.Function, args []Value) Value {
		c, ok := w.fs().files[w.concStr(fr, args[0], "file name")]
		return w.tt.Bool(ok && sameContent(c, args[1]))
	})
	reg("verifnd.FSExists", func(w *World, t *Thread, fr *frame, fn *ssa.Function, args []Value) Value {
		_, ok := w.fs().files[w.concStr(fr, args[0], "file name")]
		return w.tt.Bool(ok)
	})
	reg("verifnd.FSList", func(w *World, t *Thread, fr *frame, fn *ssa.Function, args []Value) Value {
		var out []Value
		for _, p := range w.fs().order {
			out = append(out, Str{s: p})
		}
		if out == nil {
			out = []Value{}
		}
		return out
	})
}

var _ = types.Typ

// deepEqual: structural equality of snapshots (terms by identity).
func deepEqual(a, b Value, d int) bool {
	if d > 50 {
		return false
	}
	switch x := a.(type) {
	case *Term:
		y, ok := b.(*Term)
		return ok && x == y
	case Str:
		y, ok := b.(Str)
		if !ok {
			return false
		}
		xs, ok1 := x.Concrete()
		ys, ok2 := y.Concrete()
		return ok1 && ok2 && xs == ys
	case float64:
		y, ok := b.(float64)
		return ok && x == y
	case Struct:
		y, ok := b.(Struct)
		if !ok || len(x) != len(y) {
			return false
		}
		for i := range x {
			if !deepEqual(x[i], y[i], d+1) {
				return false
			}
		}
		return true
	case Array:
		y, ok := b.(Array)
		if !ok || len(x) != len(y) {
			return false
		}
		for i := range x {
			if !deepEqual(x[i], y[i], d+1) {
				return false
			}
		}
		return true
	case []Value:
		y, ok := b.([]Value)
		if !ok || len(x) != len(y) {
			return false
		}
		for i := range x {
			if !deepEqual(x[i], y[i], d+1) {
				return false
			}
		}
		return true
	case *Value:
		y, ok := b.(*Value)
		if !ok {
			return false
		}
		if x == nil || y == nil {
			return x == nil && y == nil
		}
		return deepEqual(*x, *y, d+1)
	case Iface:
		y, ok := b.(Iface)
		if !ok {
			return false
		}
		if x.t == nil || y.t == nil {
			return x.t == nil && y.t == nil
		}
		return types.Identical(x.t, y.t) && deepEqual(x.v, y.v, d+1)
	case ProtoTok:
		y, ok := b.(ProtoTok)
		return ok && x.name == y.name && deepEqual(x.snap, y.snap, d+1)
	case *Map:
		y, ok := b.(*Map)
		if !ok {
			return false
		}
		xe, ye := x.entries(), y.entries()
		if len(xe) != len(ye) {
			return false
		}
		for i := range xe {
			if !deepEqual(xe[i].k, ye[i].k, d+1) || !deepEqual(xe[i].v, ye[i].v, d+1) {
				return false
			}
		}
		return true
	case nil:
		return b == nil
	}
	return false
}

package main

import (
	"fmt"
	"go/token"
	"go/types"
	"os"
	"strings"
	"sync"

	"golang.org/x/tools/go/ssa"
)

type fnInfo struct {
	regs  map[ssa.Value]int
	nregs int
}

type progInfo struct {
	prog      *ssa.Program
	fnInfo    sync.Map // *ssa.Function -> *fnInfo
	implCache sync.Map
	mirror    string
}

func (pi *progInfo) info(fn *ssa.Function) *fnInfo {
	if v, ok := pi.fnInfo.Load(fn); ok {
		return v.(*fnInfo)
	}
	fi := &fnInfo{regs: map[ssa.Value]int{}}
	add := func(v ssa.Value) {
		if _, ok := fi.regs[v]; !ok {
			fi.regs[v] = fi.nregs
			fi.nregs++
		}
	}
	for _, p := range fn.Params {
		add(p)
	}
	for _, fv := range fn.FreeVars {
		add(fv)
	}
	for _, b := range fn.Blocks {
		for _, in := range b.Instrs {
			if v, ok := in.(ssa.Value); ok {
				add(v)
			}
		}
	}
	v, _ := pi.fnInfo.LoadOrStore(fn, fi)
	return v.(*fnInfo)
}

type deferred struct {
	fn    Value
	args  []Value
	instr *ssa.Defer
	tail  *deferred
}

type frame struct {
	w                *World
	t                *Thread
	caller           *frame
	fn               *ssa.Function
	info             *fnInfo
	block, prevBlock *ssa.BasicBlock
	regs             []Value
	defers           *deferred
	result           Value
	panicking        bool
	panicv           interface{}
	curInstr         ssa.Instruction
	visits           map[*ssa.BasicBlock]int
	depth            int
	tolerantTop      bool
}

type continuation int

const (
	kNext continuation = iota
	kReturn
	kJump
)

func (w *World) newFrame(t *Thread, caller *frame, fn *ssa.Function) *frame {
	fi := w.pi.info(fn)
	fr := &frame{w: w, t: t, caller: caller, fn: fn, info: fi, regs: make([]Value, fi.nregs)}
	if caller != nil {
		fr.depth = caller.depth + 1
	}
	return fr
}

func (fr *frame) get(key ssa.Value) Value {
	switch key := key.(type) {
	case nil:
		return nil
	case *ssa.Function:
		return key
	case *ssa.Builtin:
		return key
	case *ssa.Const:
		return fr.w.constValue(key)
	case *ssa.Global:
		if r, ok := fr.w.globals[key]; ok {
			return r
		}
		panic(pathEnd{"unsupported", "unknown global " + key.String()})
	}
	if i, ok := fr.info.regs[key]; ok {
		return fr.regs[i]
	}
	panic(fmt.Sprintf("get: no value for %T: %v", key, key.Name()))
}

func (fr *frame) set(key ssa.Value, v Value) {
	fr.regs[fr.info.regs[key]] = v
}

func (fr *frame) runDefer(d *deferred) {
	var ok bool
	defer func() {
		if !ok {
			r := recover()
			if _, isGo := r.(goPanic); !isGo {
				panic(r) // engine-level unwinding passes through
			}
			fr.panicking = true
			fr.panicv = r
		}
	}()
	fr.w.callValue(fr.t, fr, d.fn, d.args)
	ok = true
}

func (fr *frame) runDefers() {
	for d := fr.defers; d != nil; d = d.tail {
		fr.runDefer(d)
	}
	fr.defers = nil
	if fr.panicking {
		panic(fr.panicv)
	}
}

func (w *World) unsupported(fr *frame, msg string) {
	where := ""
	if fr != nil {
		where = " in " + fr.fn.String()
		if fr.curInstr != nil && fr.curInstr.Pos().IsValid() {
			p := w.prog.Fset.Position(fr.curInstr.Pos())
			where += fmt.Sprintf(" (%s:%d)", shortPath(p.Filename), p.Line)
		}
	}
	panic(pathEnd{"unsupported", msg + where})
}

// goPanicStr raises an interpreted run-time panic.
func (w *World) rtPanic(fr *frame, msg string) {
	var v Value
	if w.rtErrT != nil {
		v = Iface{t: w.rtErrT, v: Str{s: msg}}
	} else {
		v = Iface{t: types.Typ[types.String], v: Str{s: msg}}
	}
	panic(goPanic{v: v, where: w.where(fr)})
}

func (w *World) visitInstr(fr *frame, instr ssa.Instruction) continuation {
	w.steps++
	if w.steps > w.bounds.MaxSteps {
		panic(pathEnd{"unwind", fmt.Sprintf("more than %d instructions on one path (in %s)", w.bounds.MaxSteps, fr.fn)})
	}
	fr.curInstr = instr
	if w.trace {
		if v, ok := instr.(ssa.Value); ok {
			fmt.Fprintf(os.Stderr, "[%d] %s: %s = %s\n", fr.t.id, fr.fn.Name(), v.Name(), instr)
		} else {
			fmt.Fprintf(os.Stderr, "[%d] %s: %s\n", fr.t.id, fr.fn.Name(), instr)
		}
	}
	switch instr := instr.(type) {
	case *ssa.DebugRef:

	case *ssa.UnOp:
		fr.set(instr, w.unop(fr, instr, fr.get(instr.X)))

	case *ssa.BinOp:
		fr.set(instr, w.binop(fr, instr.Op, instr.X.Type(), fr.get(instr.X), fr.get(instr.Y)))

	case *ssa.Call:
		fn, args := w.prepareCall(fr, &instr.Call)
		fr.set(instr, w.callValue(fr.t, fr, fn, args))

	case *ssa.ChangeInterface:
		fr.set(instr, fr.get(instr.X))

	case *ssa.ChangeType:
		fr.set(instr, fr.get(instr.X))

	case *ssa.Convert:
		fr.set(instr, w.conv(fr, instr.Type(), instr.X.Type(), fr.get(instr.X)))

	case *ssa.SliceToArrayPointer:
		x := fr.get(instr.X).([]Value)
		n := int(deref(instr.Type()).Underlying().(*types.Array).Len())
		if len(x) < n {
			w.rtPanic(fr, "cannot convert slice with length to array pointer: too short")
		}
		if x == nil {
			fr.set(instr, (*Value)(nil))
		} else {
			var cell Value = Array(x[:n:n])
			fr.set(instr, &cell)
		}

	case *ssa.MakeInterface:
		fr.set(instr, Iface{t: instr.X.Type(), v: fr.get(instr.X)})

	case *ssa.Extract:
		fr.set(instr, fr.get(instr.Tuple).(Tuple)[instr.Index])

	case *ssa.Slice:
		fr.set(instr, w.sliceOp(fr, instr))

	case *ssa.Return:
		switch len(instr.Results) {
		case 0:
		case 1:
			fr.result = fr.get(instr.Results[0])
		default:
			res := make(Tuple, len(instr.Results))
			for i, r := range instr.Results {
				res[i] = fr.get(r)
			}
			fr.result = res
		}
		fr.block = nil
		return kReturn

	case *ssa.RunDefers:
		fr.runDefers()

	case *ssa.Panic:
		panic(goPanic{v: fr.get(instr.X), where: w.where(fr)})

	case *ssa.Send:
		w.chanSend(fr, fr.get(instr.Chan).(*Chan), fr.get(instr.X))

	case *ssa.Store:
		addr := fr.get(instr.Addr).(*Value)
		if addr == nil {
			w.rtPanic(fr, "invalid memory address or nil pointer dereference")
		}
		w.store(addr, fr.get(instr.Val))

	case *ssa.If:
		c := fr.get(instr.Cond).(*Term)
		succ := 1
		if c == w.tt.T {
			succ = 0
		} else if c != w.tt.F && w.decideBool(c, w.posLabel(fr, instr)) {
			succ = 0
		}
		fr.prevBlock, fr.block = fr.block, fr.block.Succs[succ]
		return kJump

	case *ssa.Jump:
		fr.prevBlock, fr.block = fr.block, fr.block.Succs[0]
		return kJump

	case *ssa.Defer:
		fn, args := w.prepareCall(fr, &instr.Call)
		defers := &fr.defers
		if instr.DeferStack != nil {
			if into := fr.get(instr.DeferStack); into != nil {
				defers = into.(**deferred)
			}
		}
		*defers = &deferred{fn: fn, args: args, instr: instr, tail: *defers}

	case *ssa.Go:
		fn, args := w.prepareCall(fr, &instr.Call)
		w.spawn(fr, fn, args)

	case *ssa.MakeChan:
		sz := w.allocSize(fr, fr.get(instr.Size), instr.Size.Type())
		fr.set(instr, w.newChan(int(sz)))

	case *ssa.Alloc:
		cell := new(Value)
		*cell = w.zero(deref(instr.Type()))
		fr.set(instr, cell)

	case *ssa.MakeSlice:
		n := w.allocSize(fr, fr.get(instr.Len), instr.Len.Type())
		c := w.allocSize(fr, fr.get(instr.Cap), instr.Cap.Type())
		if n < 0 || c < n || c > 1<<26 {
			w.rtPanic(fr, "makeslice: len out of range")
		}
		tElt := instr.Type().Underlying().(*types.Slice).Elem()
		fr.set(instr, w.makeSlice(tElt, int(n), int(c)))

	case *ssa.MakeMap:
		mt := instr.Type().Underlying().(*types.Map)
		fr.set(instr, &Map{kt: mt.Key(), vt: mt.Elem(), ents: []mapEnt(nil)})

	case *ssa.Range:
		fr.set(instr, w.rangeIter(fr, fr.get(instr.X), instr.X.Type()))

	case *ssa.Next:
		fr.set(instr, fr.get(instr.Iter).(*rangeIter).next())

	case *ssa.FieldAddr:
		p := fr.get(instr.X).(*Value)
		if p == nil {
			w.rtPanic(fr, "invalid memory address or nil pointer dereference")
		}
		fr.set(instr, &(*p).(Struct)[instr.Field])

	case *ssa.Field:
		fr.set(instr, fr.get(instr.X).(Struct)[instr.Field])

	case *ssa.IndexAddr:
		x := fr.get(instr.X)
		switch x := x.(type) {
		case []Value:
			i := w.index(fr, fr.get(instr.Index), instr.Index.Type(), len(x))
			fr.set(instr, &x[i])
		case *Value:
			if x == nil {
				w.rtPanic(fr, "invalid memory address or nil pointer dereference")
			}
			a := (*x).(Array)
			i := w.index(fr, fr.get(instr.Index), instr.Index.Type(), len(a))
			fr.set(instr, &a[i])
		default:
			panic(fmt.Sprintf("unexpected x type in IndexAddr: %T", x))
		}

	case *ssa.Index:
		x := fr.get(instr.X)
		switch x := x.(type) {
		case Array:
			i := w.index(fr, fr.get(instr.Index), instr.Index.Type(), len(x))
			fr.set(instr, copyVal(x[i]))
		case Str:
			if t, ok := fr.get(instr.Index).(*Term); ok && !t.IsConst() && x.Len() <= 256 {
				fr.set(instr, w.symIndexStr(fr, x, t, instr.Index.Type()))
			} else {
				i := w.index(fr, fr.get(instr.Index), instr.Index.Type(), x.Len())
				fr.set(instr, w.strAt(x, i))
			}
		default:
			panic(fmt.Sprintf("unexpected x type in Index: %T", x))
		}

	case *ssa.Lookup:
		fr.set(instr, w.lookup(fr, instr, fr.get(instr.X), fr.get(instr.Index)))

	case *ssa.MapUpdate:
		m := fr.get(instr.Map).(*Map)
		if m == nil {
			w.rtPanic(fr, "assignment to entry in nil map")
		}
		w.mapUpdate(fr, m, fr.get(instr.Key), fr.get(instr.Value))

	case *ssa.TypeAssert:
		fr.set(instr, w.typeAssert(fr, instr, fr.get(instr.X).(Iface)))

	case *ssa.MakeClosure:
		bindings := make([]Value, len(instr.Bindings))
		for i, b := range instr.Bindings {
			bindings[i] = fr.get(b)
		}
		fr.set(instr, &Closure{instr.Fn.(*ssa.Function), bindings})

	case *ssa.Phi:
		panic("unreachable: phi")

	case *ssa.Select:
		fr.set(instr, w.selectOp(fr, instr))

	default:
		w.unsupported(fr, fmt.Sprintf("instruction %T", instr))
	}
	return kNext
}

func (w *World) posLabel(fr *frame, instr ssa.Instruction) string {
	pos := instr.Pos()
	if !pos.IsValid() {
		// use the position of the condition if any
		if i, ok := instr.(*ssa.If); ok {
			if v, ok := i.Cond.(ssa.Instruction); ok {
				pos = v.Pos()
			}
		}
	}
	if pos.IsValid() {
		p := w.prog.Fset.Position(pos)
		return fmt.Sprintf("%s@%s:%d", fr.fn.Name(), shortPath(p.Filename), p.Line)
	}
	return fr.fn.Name() + "@" + fr.block.String()
}

func (w *World) prepareCall(fr *frame, call *ssa.CallCommon) (fn Value, args []Value) {
	v := fr.get(call.Value)
	if call.Method == nil {
		fn = v
	} else {
		recv := v.(Iface)
		if recv.t == nil {
			w.rtPanic(fr, "invalid memory address or nil pointer dereference (method "+call.Method.Name()+" invoked on nil interface)")
		}
		f := w.lookupMethod(recv.t, call.Method.Pkg(), call.Method.Name())
		if f == nil {
			w.unsupported(fr, fmt.Sprintf("method set for dynamic type %v does not contain %s", recv.t, call.Method))
		}
		fn = f
		args = append(args, recv.v)
	}
	for _, arg := range call.Args {
		args = append(args, fr.get(arg))
	}
	return
}

func (w *World) callValue(t *Thread, caller *frame, fn Value, args []Value) Value {
	switch fn := fn.(type) {
	case *ssa.Function:
		if fn == nil {
			w.rtPanic(caller, "invalid memory address or nil pointer dereference (call of nil func)")
		}
		return w.call(t, caller, fn, args, nil)
	case *Closure:
		return w.call(t, caller, fn.Fn, args, fn.Env)
	case *ssa.Builtin:
		return w.callBuiltin(caller, fn, args)
	}
	panic(fmt.Sprintf("cannot call %T", fn))
}

var _ = token.NoPos

func (w *World) callInit(t *Thread, fn *ssa.Function) {
	w.inInit = true
	w.call(t, nil, fn, nil, nil)
}

func (w *World) call(t *Thread, caller *frame, fn *ssa.Function, args []Value, env []Value) Value {
	if fn.Synthetic == "package initializer" {
		if !w.inInit {
			return nil
		}
		w.inInit = false
	}
	name := fn.String()
	if fn.Parent() == nil {
		// a model supplied by the harness for this callee (verifnd.UseModel): third-party engines
		// whose documented callback protocol the harness writes down in Go
		realCode := false
		if ms, ok := w.ext["usemodels"]; ok {
			if m, ok := ms.(map[string]Value)[name]; ok {
				if m == nil {
					realCode = true // UseModel(name, nil): the real code instead of the engine's summary
				} else {
					if w.res != nil {
						w.res.Models["harness model of "+name] = true
					}
					return w.callValue(t, caller, m, args)
				}
			}
		}
		if in := lookupIntrinsic(fn, name); in != nil && w.skipIntrinsic != fn && !realCode {
			if w.res != nil {
				w.res.Models[name] = true
			}
			return in(w, t, caller, fn, args)
		}
		if fn.Blocks == nil {
			w.unsupported(caller, "no code for function "+name)
		}
	}
	if fn.TypeParams().Len() > 0 && len(fn.TypeArgs()) == 0 {
		w.unsupported(caller, "uninstantiated generic "+name)
	}
	if w.res != nil && w.tolerant == 0 {
		if pk := fn.Package(); pk != nil && repoPkg(pk.Pkg.Path()) {
			w.res.FnsEncoded[name] = true
		}
	}
	fr := w.newFrame(t, caller, fn)
	if fr.depth > w.bounds.MaxDepth {
		panic(pathEnd{"unwind", fmt.Sprintf("call depth > %d at %s", w.bounds.MaxDepth, name)})
	}
	if caller == nil && w.tolerant > 0 {
		fr.tolerantTop = true
	}
	fr.block = fn.Blocks[0]
	for i, p := range fn.Params {
		fr.regs[fr.info.regs[p]] = args[i]
	}
	for i, fv := range fn.FreeVars {
		fr.regs[fr.info.regs[fv]] = env[i]
	}
	saved := t.top
	t.top = fr
	for fr.block != nil {
		w.runFrame(fr)
	}
	t.top = saved
	return fr.result
}

func (w *World) runFrame(fr *frame) {
	defer func() {
		if fr.block == nil {
			return // normal return
		}
		r := recover()
		if _, ok := r.(goPanic); !ok {
			panic(r) // engine-level unwinding: no interpreted defers
		}
		fr.panicking = true
		fr.panicv = r
		fr.runDefers()
		fr.block = fr.fn.Recover
		if fr.block == nil {
			// recovered, no named results: return zero values
			fr.result = w.zeroResults(fr.fn)
		}
	}()
	for {
		if fr.visits == nil {
			fr.visits = map[*ssa.BasicBlock]int{}
		}
		fr.visits[fr.block]++
		if fr.visits[fr.block] > 1 {
			if v, ok := w.ext["loopbounds"]; ok {
				if n, ok := v.(map[string]int)[fr.fn.String()]; ok && fr.visits[fr.block] > n {
					w.res.Cuts[fmt.Sprintf("loop %s <= %d rounds", fr.fn.String(), n)]++
					panic(pathEnd{"infeasible", "loop bound cut"})
				}
			}
		}
		if fr.visits[fr.block] > w.bounds.MaxLoop {
			panic(pathEnd{"unwind", fmt.Sprintf("block visited more than %d times in %s", w.bounds.MaxLoop, fr.fn)})
		}
		instrs := w.executePhis(fr)
		jumped := false
		for _, instr := range instrs {
			var k continuation
			if fr.tolerantTop {
				k = w.tolerantInstr(fr, instr)
			} else {
				k = w.visitInstr(fr, instr)
			}
			if k == kReturn {
				return
			}
			if k == kJump {
				jumped = true
				break
			}
		}
		if !jumped {
			panic("block fell through: " + fr.fn.String())
		}
	}
}

func (w *World) tolerantInstr(fr *frame, instr ssa.Instruction) (k continuation) {
	defer func() {
		if r := recover(); r != nil {
			if os.Getenv("GOSYM_INITDEBUG") != "" || repoPkg(fr.fn.Pkg.Pkg.Path()) {
				fmt.Fprintf(os.Stderr, "  init skip %s: %v: %.400s\n", fr.fn.Pkg.Pkg.Path(), instr, describePanic(w, r))
			}
			if v, ok := instr.(ssa.Value); ok {
				fr.set(v, w.zeroOrNil(v.Type()))
			}
			switch instr.(type) {
			case *ssa.If:
				fr.prevBlock, fr.block = fr.block, fr.block.Succs[1]
				k = kJump
			default:
				k = kNext
			}
		}
	}()
	saved := w.steps
	w.steps = 0
	k = w.visitInstr(fr, instr)
	w.steps += saved
	return k
}

func (w *World) zeroResults(fn *ssa.Function) Value {
	res := fn.Signature.Results()
	switch res.Len() {
	case 0:
		return nil
	case 1:
		return w.zero(res.At(0).Type())
	}
	t := make(Tuple, res.Len())
	for i := range t {
		t[i] = w.zero(res.At(i).Type())
	}
	return t
}

func (w *World) executePhis(fr *frame) []ssa.Instruction {
	firstNonPhi := -1
	for i, instr := range fr.block.Instrs {
		if _, ok := instr.(*ssa.Phi); !ok {
			firstNonPhi = i
			break
		}
	}
	nonPhis := fr.block.Instrs[firstNonPhi:]
	if firstNonPhi > 0 {
		phis := fr.block.Instrs[:firstNonPhi]
		predIndex := -1
		for i, p := range fr.block.Preds {
			if p == fr.prevBlock {
				predIndex = i
				break
			}
		}
		tmp := make([]Value, len(phis))
		for i, phi := range phis {
			tmp[i] = fr.get(phi.(*ssa.Phi).Edges[predIndex])
		}
		for i, phi := range phis {
			fr.set(phi.(*ssa.Phi), tmp[i])
		}
	}
	return nonPhis
}

// doRecover implements recover().
func (w *World) doRecover(caller *frame) Value {
	if caller != nil && !caller.panicking && caller.caller != nil && caller.caller.panicking {
		caller.caller.panicking = false
		p := caller.caller.panicv
		caller.caller.panicv = nil
		if gp, ok := p.(goPanic); ok {
			return gp.v
		}
		panic(fmt.Sprintf("unexpected panic type %T in recover()", p))
	}
	return Iface{}
}

func lookupIntrinsic(fn *ssa.Function, name string) intrinsic {
	if in, ok := intrinsics[name]; ok {
		return in
	}
	// generic instantiations: match on the origin's name
	if o := fn.Origin(); o != nil {
		if in, ok := intrinsics[o.String()]; ok {
			return in
		}
	}
	// generated protobuf enum String(): look the name up in the generated X_name map
	if fn.Name() == "String" && fn.Signature.Recv() != nil && fn.Pkg != nil && fn.Pkg.Pkg.Path() == repoMod+"/proto" {
		if n, ok := fn.Signature.Recv().Type().(*types.Named); ok {
			if b, ok := n.Underlying().(*types.Basic); ok && b.Kind() == types.Int32 {
				if _, ok := fn.Pkg.Members[n.Obj().Name()+"_name"].(*ssa.Global); ok {
					return enumStringIntrinsic
				}
			}
		}
	}
	// environment packages stubbed wholesale (sockets, structured loggers)
	if pk := fn.Package(); pk != nil && stubPkgs[pk.Pkg.Path()] {
		return stubIntrinsic
	}
	if strings.HasPrefix(name, verifndPath+".") {
		if in, ok := intrinsics["verifnd."+fn.Name()]; ok {
			return in
		}
	}
	return nil
}

// lookupMethod is a non-panicking prog.LookupMethod (nil when T has no such method).
func (w *World) lookupMethod(T types.Type, pkg *types.Package, name string) *ssa.Function {
	ms := w.prog.MethodSets.MethodSet(T)
	sel := ms.Lookup(pkg, name)
	if sel == nil && pkg == nil {
		// exported-name lookup without a package
		for i := 0; i < ms.Len(); i++ {
			if ms.At(i).Obj().Name() == name {
				sel = ms.At(i)
				break
			}
		}
	}
	if sel == nil {
		return nil
	}
	return w.prog.MethodValue(sel)
}

var stubPkgs = map[string]bool{
	"github.com/pebbe/zmq4":      true,
	"github.com/sirupsen/logrus": true,
}

// stubIntrinsic: an environment call that succeeds and returns zero values;
// pointer results are fresh non-nil objects so that methods can be called on them.
func stubIntrinsic(w *World, t *Thread, fr *frame, fn *ssa.Function, args []Value) Value {
	res := fn.Signature.Results()
	mk := func(rt types.Type) Value {
		if p, ok := rt.Underlying().(*types.Pointer); ok {
			if _, isStruct := p.Elem().Underlying().(*types.Struct); isStruct {
				cell := new(Value)
				*cell = w.zero(p.Elem())
				return cell
			}
		}
		return w.zero(rt)
	}
	switch res.Len() {
	case 0:
		return nil
	case 1:
		return mk(res.At(0).Type())
	}
	out := make(Tuple, res.Len())
	for i := range out {
		out[i] = mk(res.At(i).Type())
	}
	return out
}

package main

// Third-party obfs4 server side (github.com/refraction-networking/obfs4): the
// station hands a recognised connection to ServerFactory(...).WrapConn, which
// runs the ntor handshake (curve25519 field arithmetic, Elligator, probability
// tables) - outside the model.  Stub: the factory is built without parsing its
// arguments, WrapConn returns the connection it was given and no error (the
// handshake's own verdict on the MAC/epoch is the library's business).

import (
	"go/types"

	"golang.org/x/tools/go/ssa"
)

func init() {
	const p = "github.com/refraction-networking/obfs4/transports/obfs4"
	reg("(*"+p+".Transport).ServerFactory", func(w *World, t *Thread, fr *frame, fn *ssa.Function, args []Value) Value {
		obj := fn.Pkg.Pkg.Scope().Lookup("obfs4ServerFactory")
		if obj == nil {
			w.unsupported(fr, "obfs4ServerFactory type not found")
		}
		cell := new(Value)
		*cell = w.zero(obj.Type())
		w.res.Cuts["obfs4 server handshake stubbed (ServerFactory/WrapConn of the third-party library succeed)"]++
		return Tuple{Iface{t: types.NewPointer(obj.Type()), v: cell}, w.nilError()}
	})
	reg("(*"+p+".obfs4ServerFactory).WrapConn", func(w *World, t *Thread, fr *frame, fn *ssa.Function, args []Value) Value {
		return Tuple{args[1], w.nilError()}
	})
}

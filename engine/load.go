package main

// Mirror /repo's working tree into a scratch directory, drop the harness files
// and the verifnd package into it, load and build SSA.

import (
	"fmt"
	"os"
	"os/exec"
	"path/filepath"
	"strings"
	"time"

	"golang.org/x/tools/go/packages"
	"golang.org/x/tools/go/ssa"
	"golang.org/x/tools/go/ssa/ssautil"
)

const repoMod = "github.com/refraction-networking/conjure"

var (
	repoDir  = envOr("GOSYM_REPO", "/repo")
	verifDir = envOr("GOSYM_VERIF", "/verif")
)

func envOr(k, d string) string {
	if v := os.Getenv(k); v != "" {
		return v
	}
	return d
}

type Mirror struct {
	root string // scratch root; the tree is at root/mirror
	dir  string
}

func (m *Mirror) Remove() {
	if m != nil && m.root != "" {
		os.RemoveAll(m.root)
	}
}

func goEnv() []string {
	env := os.Environ()
	out := env[:0:0]
	for _, e := range env {
		if strings.HasPrefix(e, "GOFLAGS=") || strings.HasPrefix(e, "GOPROXY=") || strings.HasPrefix(e, "GOSUMDB=") || strings.HasPrefix(e, "GOTOOLCHAIN=") || strings.HasPrefix(e, "GOWORK=") {
			continue
		}
		out = append(out, e)
	}
	return append(out, "GOFLAGS=", "GOPROXY=off", "GOSUMDB=off", "GOTOOLCHAIN=local", "CGO_ENABLED=1")
}

// NewMirror copies the Go-relevant part of the repository working tree.
func NewMirror() (*Mirror, error) {
	base := os.Getenv("TMPDIR")
	if base == "" {
		base = "/tmp"
	}
	root, err := os.MkdirTemp(base, "gosym-")
	if err != nil {
		return nil, err
	}
	m := &Mirror{root: root, dir: filepath.Join(root, "mirror")}
	args := []string{"-a", "--delete",
		"--exclude=.git", "--exclude=/paper", "--exclude=/docker", "--exclude=/simulation", "--exclude=/libtapdance",
		"--exclude=/target", "--exclude=/cmd/application/application", "--exclude=/cmd/registration-server/regserver",
		"--exclude=/util/station-debug/zmqsub", "--exclude=*.o", "--exclude=*.a",
		repoDir + "/", m.dir + "/"}
	if out, err := exec.Command("rsync", args...).CombinedOutput(); err != nil {
		m.Remove()
		return nil, fmt.Errorf("rsync: %v: %s", err, out)
	}
	// harness files
	hroot := filepath.Join(verifDir, "harness")
	err = filepath.Walk(hroot, func(p string, info os.FileInfo, err error) error {
		if err != nil || info.IsDir() {
			return err
		}
		rel, _ := filepath.Rel(hroot, p)
		var dst string
		if strings.HasPrefix(rel, "verifnd"+string(filepath.Separator)) {
			dst = filepath.Join(m.dir, "internal", rel)
		} else {
			dst = filepath.Join(m.dir, rel)
		}
		if !strings.HasSuffix(p, ".go") {
			return nil
		}
		if err := os.MkdirAll(filepath.Dir(dst), 0o755); err != nil {
			return err
		}
		b, err := os.ReadFile(p)
		if err != nil {
			return err
		}
		return os.WriteFile(dst, b, 0o644)
	})
	if err != nil {
		m.Remove()
		return nil, err
	}
	return m, nil
}

type Loaded struct {
	pi    *progInfo
	pkgs  []*packages.Package
	load  time.Duration
	build time.Duration
}

// LoadPackages loads the given package patterns (relative to the mirror root).
func (m *Mirror) LoadPackages(patterns []string) (*Loaded, error) {
	t0 := time.Now()
	cfg := &packages.Config{
		Mode:  packages.LoadAllSyntax,
		Dir:   m.dir,
		Env:   goEnv(),
		Tests: false,
	}
	pkgs, err := packages.Load(cfg, patterns...)
	if err != nil {
		return nil, err
	}
	var errs []string
	packages.Visit(pkgs, nil, func(p *packages.Package) {
		for _, e := range p.Errors {
			if repoPkg(p.PkgPath) {
				errs = append(errs, e.Error())
			}
		}
	})
	if len(errs) > 0 {
		return nil, fmt.Errorf("package errors:\n%s", strings.Join(errs, "\n"))
	}
	t1 := time.Now()
	prog, _ := ssautil.AllPackages(pkgs, ssa.InstantiateGenerics|ssa.SanityCheckFunctions*0)
	prog.Build()
	t2 := time.Now()
	pi := &progInfo{prog: prog, mirror: m.dir}
	return &Loaded{pi: pi, pkgs: pkgs, load: t1.Sub(t0), build: t2.Sub(t1)}, nil
}

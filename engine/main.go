package main

import (
	"encoding/json"
	"fmt"
	"os"
	"runtime/pprof"
	"sort"
	"strings"
)

func usage() {
	fmt.Fprintln(os.Stderr, `usage:
  gosym check <Cxx> [--tier quick|thorough]
  gosym replay <replay.json>
  gosym run <pkg-dir-pattern> <Func> [...Func]     (development: explore harness functions, print summary)`)
	os.Exit(2)
}

func main() {
	if len(os.Args) < 2 {
		usage()
	}
	if p := os.Getenv("GOSYM_PROF"); p != "" {
		f, _ := os.Create(p)
		pprof.StartCPUProfile(f)
		defer pprof.StopCPUProfile()
		code := realMain()
		pprof.StopCPUProfile()
		os.Exit(code)
	}
	os.Exit(realMain())
}

func realMain() int {
	switch os.Args[1] {
	case "run":
		if len(os.Args) < 4 {
			usage()
		}
		return cmdRun(os.Args[2], os.Args[3:])
	case "check":
		if len(os.Args) < 3 {
			usage()
		}
		tier := os.Getenv("VERIF_TIER")
		for i := 3; i < len(os.Args); i++ {
			if os.Args[i] == "--tier" && i+1 < len(os.Args) {
				if tier == "" || os.Getenv("VERIF_TIER") == "" {
					tier = os.Args[i+1]
				}
			}
		}
		if tier == "" {
			tier = "quick"
		}
		return cmdCheck(os.Args[2], tier)
	case "replay":
		if len(os.Args) < 3 {
			usage()
		}
		return cmdReplay(os.Args[2])
	default:
		usage()
	}
	return 2
}

func cmdRun(pattern string, funcs []string) int {
	m, err := NewMirror()
	if err != nil {
		fmt.Fprintln(os.Stderr, "mirror:", err)
		return 2
	}
	defer m.Remove()
	ld, err := m.LoadPackages([]string{pattern})
	if err != nil {
		fmt.Fprintln(os.Stderr, "load:", err)
		return 2
	}
	fmt.Fprintf(os.Stderr, "loaded in %v, ssa %v\n", ld.load, ld.build)
	pkgPath := ld.pkgs[0].PkgPath
	rc := 0
	for _, f := range funcs {
		b := defaultBounds()
		if v := os.Getenv("GOSYM_BUDGET"); v != "" {
			fmt.Sscan(v, &b.WallS)
		}
		w := NewWorld(ld.pi, b)
		if fp := os.Getenv("GOSYM_FORCE"); fp != "" {
			var rr replayRec
			if bb, err := os.ReadFile(fp); err == nil && json.Unmarshal(bb, &rr) == nil {
				w.forced = rr.Vector
			}
		}
		w.trace = os.Getenv("GOSYM_TRACE") != ""
		res := w.Explore(Harness{Pkg: pkgPath, Func: f}, map[string]bool{})
		printResult(res)
		if len(res.Failures) > 0 || len(res.Unsupported) > 0 || len(res.EngineErr) > 0 {
			rc = 1
		}
	}
	return rc
}

func printResult(res *HarnessResult) {
	fmt.Printf("== %s: paths=%d decisions=%d steps=%d infeasible=%d wall=%v solver: q=%d sat=%d unsat=%d unknown=%d t=%v wait=%v\n",
		res.Name, res.Paths, res.Decisions, res.Steps, res.Infeasible, res.Wall.Round(1e6),
		res.Solver.Queries, res.Solver.Sat, res.Solver.Unsat, res.Solver.Unknown, res.Solver.Time.Round(1e6), res.Solver.Wait.Round(1e6))
	var names []string
	for n := range res.Obligations {
		names = append(names, n)
	}
	sort.Strings(names)
	for _, n := range names {
		fmt.Printf("   obligation %-40s checked=%d discharged=%d\n", n, res.Obligations[n], res.Discharged[n])
	}
	var rs []string
	for n := range res.Reached {
		rs = append(rs, n)
	}
	sort.Strings(rs)
	fmt.Printf("   reached: %s\n", strings.Join(rs, " "))
	for _, f := range res.Failures {
		b, _ := json.Marshal(f.Vector)
		fmt.Printf("   FAILURE %s kind=%s msg=%q findings=%v unexplained=%v\n     vector=%s\n", f.Obligation, f.Kind, f.Msg, f.Findings, f.Unexplain, b)
		for id, v := range f.FindVecs {
			b, _ := json.Marshal(v)
			fmt.Printf("     finding %s vector=%s\n", id, b)
		}
		if f.Where != "" {
			fmt.Printf("     where:\n%s", indent(f.Where))
		}
	}
	for _, u := range res.Unsupported {
		fmt.Printf("   UNSUPPORTED %s\n", u)
	}
	for _, u := range res.Unwind {
		fmt.Printf("   UNWIND %s\n", u)
	}
	for _, u := range res.Unknown {
		fmt.Printf("   UNKNOWN %s\n", u)
	}
	for _, u := range res.EngineErr {
		fmt.Printf("   ENGINE-ERROR %s\n", u)
	}
	for _, e := range res.Solver.Errors {
		fmt.Printf("   SOLVER-ERROR %s\n", e)
	}
}

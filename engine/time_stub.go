package main

// fireNextTimer advances the model clock to the next pending timer, if any.
func (w *World) fireNextTimer() bool { return false }

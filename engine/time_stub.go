package main

// Opt-in model of timers that fire (verifnd.TimersFire()).  Computation is instantaneous: the
// model clock advances only when no thread can run, and then exactly to the earliest pending
// timer deadline, whose channel receives its value (discrete-event semantics).  Deadlines are
// terms: which pending timer is the earliest is decided by the solver (a fork per undecided
// comparison), so durations may be symbolic; timers that expire at the same instant fire in
// creation order (the other order at an exact tie is not explored).  time.Sleep becomes "block until a timer of that duration fires".
// What this does not explore: a timer expiring while some thread could still run (a slow
// thread) - stated as a bound by the harnesses that opt in.

type modelTimer struct {
	ch       *Chan
	deadline *Term
	fired    bool
	stopped  bool
	seq      int
}

func (w *World) timersFire() bool { _, ok := w.ext["timersfire"]; return ok }

func (w *World) timerList() []*modelTimer {
	if v, ok := w.ext["timers"]; ok {
		return v.([]*modelTimer)
	}
	return nil
}

// newModelTimer registers a pending timer for now+d and returns its channel.
func (w *World) newModelTimer(fr *frame, d *Term) *Chan {
	ch := w.newChan(1)
	zero := w.tt.BV(64, 0)
	neg := w.tt.Cmp(OpSLt, d, zero)
	if neg == w.tt.T {
		d = zero
	} else if neg != w.tt.F {
		d = w.tt.Ite(neg, zero, d)
	}
	l := w.timerList()
	w.ext["timers"] = append(l[:len(l):len(l)], &modelTimer{ch: ch, deadline: w.tt.Bin(OpAdd, w.now(), d), seq: len(l)})
	w.res.Models["timers fire when no thread can run (discrete-event clock)"] = true
	return ch
}

func (w *World) stopModelTimer(ch *Chan) bool {
	for _, mt := range w.timerList() {
		if mt.ch == ch {
			was := !mt.fired && !mt.stopped
			mt.stopped = true
			return was
		}
	}
	return false
}

// fireNextTimer advances the model clock to the next pending timer, if any.
func (w *World) fireNextTimer() bool {
	if !w.timersFire() {
		return false
	}
	var best *modelTimer
	for _, mt := range w.timerList() {
		if mt.fired || mt.stopped {
			continue
		}
		if best == nil {
			best = mt
			continue
		}
		earlier := w.tt.Cmp(OpSLt, mt.deadline, best.deadline)
		if earlier == w.tt.T || (earlier != w.tt.F && w.decideBool(earlier, "timer order")) {
			best = mt
		}
	}
	if best == nil {
		return false
	}
	best.fired = true
	// invariant: the clock never passes a pending deadline, so the earliest one is >= now
	w.setNow(best.deadline)
	w.chanPush(best.ch, w.mkTime(best.deadline))
	return true
}

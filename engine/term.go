package main

// Hash-consed SMT terms (bit-vectors, booleans, uninterpreted functions) with
// constant folding and a small set of rewrites that keep concrete computation
// concrete.  One table per World (no locking).

import (
	"fmt"
	"math/big"
	"math/bits"
	"strings"
)

type Op uint8

const (
	OpConst Op = iota // bit-vector constant (k or big)
	OpTrue
	OpFalse
	OpVar // name, w (0 = Bool)
	OpAdd
	OpSub
	OpMul
	OpUDiv
	OpURem
	OpSDiv
	OpSRem
	OpAnd
	OpOr
	OpXor
	OpNot // bvnot
	OpNeg
	OpShl
	OpLShr
	OpAShr
	OpConcat  // a ++ b (a is the high part)
	OpExtract // k = hi<<16 | lo
	OpZExt    // to width w
	OpSExt    // to width w
	OpIte     // a ? b : c (bv or bool result)
	OpEq      // bool
	OpULt
	OpULe
	OpSLt
	OpSLe
	OpBAnd // n-ary
	OpBOr  // n-ary
	OpBNot
	OpUF // name(args...) -> sort w
)

type Term struct {
	op   Op
	w    int // 0 = Bool, else bit-vector width
	a    []*Term
	k    uint64
	big  *big.Int
	name string
	id   uint32
}

func (t *Term) IsBool() bool  { return t.w == 0 }
func (t *Term) IsConst() bool { return t.op == OpConst || t.op == OpTrue || t.op == OpFalse }

// Const64 returns the value of a bit-vector constant of width <= 64.
func (t *Term) Const64() (uint64, bool) {
	if t.op == OpConst && t.w <= 64 {
		return t.k, true
	}
	return 0, false
}

type ufDecl struct {
	name string
	args []int
	ret  int
}

type TermTable struct {
	tab    map[string]*Term
	terms  []*Term
	T, F   *Term
	ufs    map[string]*ufDecl
	nfresh int
}

func NewTermTable() *TermTable {
	tt := &TermTable{tab: map[string]*Term{}, ufs: map[string]*ufDecl{}}
	tt.T = tt.intern(&Term{op: OpTrue})
	tt.F = tt.intern(&Term{op: OpFalse})
	return tt
}

func (tt *TermTable) key(t *Term) string {
	var sb strings.Builder
	sb.Grow(32)
	sb.WriteByte(byte(t.op))
	fmt.Fprintf(&sb, ":%d:%d:", t.w, t.k)
	if t.big != nil {
		sb.WriteString(t.big.Text(16))
	}
	sb.WriteString(t.name)
	for _, x := range t.a {
		fmt.Fprintf(&sb, ",%d", x.id)
	}
	return sb.String()
}

func (tt *TermTable) intern(t *Term) *Term {
	k := tt.key(t)
	if o, ok := tt.tab[k]; ok {
		return o
	}
	t.id = uint32(len(tt.terms))
	tt.terms = append(tt.terms, t)
	tt.tab[k] = t
	return t
}

func mask(w int) uint64 {
	if w >= 64 {
		return ^uint64(0)
	}
	return (uint64(1) << uint(w)) - 1
}

func bigMask(w int) *big.Int {
	m := new(big.Int).Lsh(big.NewInt(1), uint(w))
	return m.Sub(m, big.NewInt(1))
}

// BV makes a constant of width w <= 64.
func (tt *TermTable) BV(w int, v uint64) *Term {
	if w <= 0 {
		panic("BV: bad width")
	}
	if w > 64 {
		return tt.BVBig(w, new(big.Int).SetUint64(v))
	}
	return tt.intern(&Term{op: OpConst, w: w, k: v & mask(w)})
}

func (tt *TermTable) BVBig(w int, v *big.Int) *Term {
	if w <= 64 {
		m := new(big.Int).And(v, bigMask(w))
		return tt.BV(w, m.Uint64())
	}
	m := new(big.Int).And(v, bigMask(w))
	return tt.intern(&Term{op: OpConst, w: w, big: m})
}

func (tt *TermTable) Bool(b bool) *Term {
	if b {
		return tt.T
	}
	return tt.F
}

func (tt *TermTable) Var(name string, w int) *Term {
	return tt.intern(&Term{op: OpVar, w: w, name: name})
}

func (tt *TermTable) Fresh(prefix string, w int) *Term {
	tt.nfresh++
	return tt.Var(fmt.Sprintf("%s!%d", sanitize(prefix), tt.nfresh), w)
}

func sanitize(s string) string {
	var sb strings.Builder
	for _, c := range s {
		if c >= 'a' && c <= 'z' || c >= 'A' && c <= 'Z' || c >= '0' && c <= '9' || c == '_' || c == '.' {
			sb.WriteRune(c)
		} else {
			sb.WriteByte('_')
		}
	}
	return sb.String()
}

// value of constant as big.Int (unsigned)
func cBig(t *Term) *big.Int {
	if t.big != nil {
		return t.big
	}
	return new(big.Int).SetUint64(t.k)
}

func sBig(t *Term) *big.Int { // signed value
	v := new(big.Int).Set(cBig(t))
	if v.Bit(t.w-1) == 1 {
		v.Sub(v, new(big.Int).Lsh(big.NewInt(1), uint(t.w)))
	}
	return v
}

func sext64(v uint64, w int) int64 {
	if w >= 64 {
		return int64(v)
	}
	sh := uint(64 - w)
	return int64(v<<sh) >> sh
}

func (tt *TermTable) mk(op Op, w int, k uint64, args ...*Term) *Term {
	return tt.intern(&Term{op: op, w: w, k: k, a: args})
}

// ---------------------------------------------------------------- arithmetic

func (tt *TermTable) Bin(op Op, x, y *Term) *Term {
	if x.w != y.w {
		panic(fmt.Sprintf("Bin %d: width mismatch %d vs %d", op, x.w, y.w))
	}
	w := x.w
	if x.op == OpConst && y.op == OpConst {
		if w <= 64 {
			a, b := x.k, y.k
			var r uint64
			switch op {
			case OpAdd:
				r = a + b
			case OpSub:
				r = a - b
			case OpMul:
				r = a * b
			case OpUDiv:
				if b == 0 {
					r = mask(w)
				} else {
					r = a / b
				}
			case OpURem:
				if b == 0 {
					r = a
				} else {
					r = a % b
				}
			case OpSDiv:
				sa, sb := sext64(a, w), sext64(b, w)
				if sb == 0 {
					if sa < 0 {
						r = 1
					} else {
						r = mask(w)
					}
				} else if sb == -1 {
					r = uint64(-sa)
				} else {
					r = uint64(sa / sb)
				}
			case OpSRem:
				sa, sb := sext64(a, w), sext64(b, w)
				if sb == 0 {
					r = a
				} else if sb == -1 {
					r = 0
				} else {
					r = uint64(sa % sb)
				}
			case OpAnd:
				r = a & b
			case OpOr:
				r = a | b
			case OpXor:
				r = a ^ b
			case OpShl:
				if b >= uint64(w) {
					r = 0
				} else {
					r = a << b
				}
			case OpLShr:
				if b >= uint64(w) {
					r = 0
				} else {
					r = a >> b
				}
			case OpAShr:
				sa := sext64(a, w)
				if b >= uint64(w) {
					b = uint64(w - 1)
				}
				r = uint64(sa >> b)
			default:
				panic("Bin: bad op")
			}
			return tt.BV(w, r)
		}
		a, b := cBig(x), cBig(y)
		r := new(big.Int)
		switch op {
		case OpAdd:
			r.Add(a, b)
		case OpSub:
			r.Sub(a, b)
			if r.Sign() < 0 {
				r.Add(r, new(big.Int).Lsh(big.NewInt(1), uint(w)))
			}
		case OpMul:
			r.Mul(a, b)
		case OpUDiv:
			if b.Sign() == 0 {
				r = bigMask(w)
			} else {
				r.Div(a, b)
			}
		case OpURem:
			if b.Sign() == 0 {
				r.Set(a)
			} else {
				r.Mod(a, b)
			}
		case OpAnd:
			r.And(a, b)
		case OpOr:
			r.Or(a, b)
		case OpXor:
			r.Xor(a, b)
		case OpShl:
			if !b.IsUint64() || b.Uint64() >= uint64(w) {
				r.SetInt64(0)
			} else {
				r.Lsh(a, uint(b.Uint64()))
			}
		case OpLShr:
			if !b.IsUint64() || b.Uint64() >= uint64(w) {
				r.SetInt64(0)
			} else {
				r.Rsh(a, uint(b.Uint64()))
			}
		default:
			goto nofold
		}
		return tt.BVBig(w, r)
	}
nofold:
	// identities
	switch op {
	case OpAdd:
		if isZero(x) {
			return y
		}
		if isZero(y) {
			return x
		}
		if x.op == OpConst { // canonical: const on the right
			x, y = y, x
		}
		// (a + c1) + c2
		if y.op == OpConst && x.op == OpAdd && x.a[1].op == OpConst {
			return tt.Bin(OpAdd, x.a[0], tt.Bin(OpAdd, x.a[1], y))
		}
	case OpSub:
		if isZero(y) {
			return x
		}
		if x == y {
			return tt.zero(w)
		}
		if y.op == OpConst {
			return tt.Bin(OpAdd, x, tt.Un(OpNeg, y))
		}
	case OpMul:
		if isZero(x) || isZero(y) {
			return tt.zero(w)
		}
		if isOne(x) {
			return y
		}
		if isOne(y) {
			return x
		}
		if x.op == OpConst {
			x, y = y, x
		}
	case OpAnd:
		if isZero(x) || isZero(y) {
			return tt.zero(w)
		}
		if isAllOnes(x) {
			return y
		}
		if isAllOnes(y) {
			return x
		}
		if x == y {
			return x
		}
		if x.op == OpConst {
			x, y = y, x
		}
		// and with low-bit mask of a zext: drop
		if y.op == OpConst && w <= 64 && x.op == OpZExt {
			iw := x.a[0].w
			if y.k&mask(iw) == mask(iw) {
				return x
			}
		}
		// x & (2^n - 1) -> zext(extract(n-1,0,x))
		if y.op == OpConst && w <= 64 && y.k != 0 && (y.k&(y.k+1)) == 0 {
			n := bits.Len64(y.k)
			if n < w {
				return tt.ZExt(tt.Extract(x, n-1, 0), w)
			}
		}
	case OpOr:
		if isZero(x) {
			return y
		}
		if isZero(y) {
			return x
		}
		if isAllOnes(x) || isAllOnes(y) {
			return tt.allOnes(w)
		}
		if x == y {
			return x
		}
		if r := tt.orAsConcat(x, y); r != nil {
			return r
		}
		if x.op == OpConst {
			x, y = y, x
		}
	case OpXor:
		if isZero(x) {
			return y
		}
		if isZero(y) {
			return x
		}
		if x == y {
			return tt.zero(w)
		}
		if x.op == OpConst {
			x, y = y, x
		}
		// (a ^ b) ^ b -> a
		if x.op == OpXor {
			if x.a[1] == y {
				return x.a[0]
			}
			if x.a[0] == y {
				return x.a[1]
			}
		}
		if y.op == OpXor {
			if y.a[1] == x {
				return y.a[0]
			}
			if y.a[0] == x {
				return y.a[1]
			}
		}
	case OpShl, OpLShr, OpAShr:
		if isZero(y) {
			return x
		}
		if isZero(x) {
			return x
		}
		if y.op == OpConst && w <= 64 {
			n := int(y.k)
			if y.w > 64 || y.k >= uint64(w) {
				if op == OpAShr {
					n = w - 1
				} else {
					return tt.zero(w)
				}
			}
			switch op {
			case OpShl:
				// x << n = concat(extract(w-n-1,0,x), 0^n)
				return tt.Concat(tt.Extract(x, w-n-1, 0), tt.BV(n, 0))
			case OpLShr:
				return tt.ZExt(tt.Extract(x, w-1, n), w)
			case OpAShr:
				return tt.SExt(tt.Extract(x, w-1, n), w)
			}
		}
	case OpUDiv:
		if isOne(y) {
			return x
		}
	case OpURem:
		if isOne(y) {
			return tt.zero(w)
		}
		if y.op == OpConst && w <= 64 && y.k != 0 && (y.k&(y.k-1)) == 0 {
			n := bits.Len64(y.k) - 1
			return tt.ZExt(tt.Extract(x, n-1, 0), w)
		}
	}
	return tt.mk(op, w, 0, x, y)
}

// orAsConcat recognises zext/shift style byte assembly:
// concat(hi, 0^n) | zext(lo:n) -> concat(hi, lo)
func (tt *TermTable) orAsConcat(x, y *Term) *Term {
	try := func(p, q *Term) *Term {
		// p = concat(hi, zeros n), q has its top (w-n) bits zero
		if p.op != OpConcat {
			return nil
		}
		lo := p.a[1]
		if !isZero(lo) {
			return nil
		}
		n := lo.w
		if hz := tt.highZeros(q); hz >= q.w-n {
			return tt.Concat(p.a[0], tt.Extract(q, n-1, 0))
		}
		return nil
	}
	if r := try(x, y); r != nil {
		return r
	}
	return try(y, x)
}

// highZeros: number of syntactically known zero high bits
func (tt *TermTable) highZeros(t *Term) int {
	switch t.op {
	case OpConst:
		if t.w <= 64 {
			return t.w - bits.Len64(t.k)
		}
		return t.w - t.big.BitLen()
	case OpZExt:
		return t.w - t.a[0].w + tt.highZeros(t.a[0])
	case OpConcat:
		if isZero(t.a[0]) {
			return t.a[0].w + tt.highZeros(t.a[1])
		}
		return tt.highZeros(t.a[0])
	}
	return 0
}

func isZero(t *Term) bool {
	if t.op != OpConst {
		return false
	}
	if t.big != nil {
		return t.big.Sign() == 0
	}
	return t.k == 0
}
func isOne(t *Term) bool {
	if t.op != OpConst {
		return false
	}
	if t.big != nil {
		return t.big.IsUint64() && t.big.Uint64() == 1
	}
	return t.k == 1
}
func isAllOnes(t *Term) bool {
	if t.op != OpConst {
		return false
	}
	if t.big != nil {
		return t.big.Cmp(bigMask(t.w)) == 0
	}
	return t.k == mask(t.w)
}
func (tt *TermTable) zero(w int) *Term { return tt.BV(w, 0) }
func (tt *TermTable) allOnes(w int) *Term {
	if w <= 64 {
		return tt.BV(w, mask(w))
	}
	return tt.BVBig(w, bigMask(w))
}

func (tt *TermTable) Un(op Op, x *Term) *Term {
	w := x.w
	if x.op == OpConst {
		if w <= 64 {
			switch op {
			case OpNot:
				return tt.BV(w, ^x.k)
			case OpNeg:
				return tt.BV(w, -x.k)
			}
		} else {
			switch op {
			case OpNot:
				return tt.BVBig(w, new(big.Int).Xor(x.big, bigMask(w)))
			case OpNeg:
				r := new(big.Int).Sub(new(big.Int).Lsh(big.NewInt(1), uint(w)), x.big)
				return tt.BVBig(w, r)
			}
		}
	}
	if x.op == op {
		return x.a[0]
	}
	return tt.mk(op, w, 0, x)
}

func (tt *TermTable) Concat(hi, lo *Term) *Term {
	w := hi.w + lo.w
	if hi.op == OpConst && lo.op == OpConst {
		r := new(big.Int).Lsh(cBig(hi), uint(lo.w))
		r.Or(r, cBig(lo))
		return tt.BVBig(w, r)
	}
	// concat(extract(h,m+1,x), extract(m,l,x)) -> extract(h,l,x)
	if hi.op == OpExtract && lo.op == OpExtract && hi.a[0] == lo.a[0] {
		hh, hl := int(hi.k>>16), int(hi.k&0xffff)
		lh, ll := int(lo.k>>16), int(lo.k&0xffff)
		if hl == lh+1 {
			return tt.Extract(hi.a[0], hh, ll)
		}
	}
	// concat(0, x) -> zext
	if isZero(hi) {
		return tt.ZExt(lo, w)
	}
	// concat(hi, concat(m, lo)) where hi,m extract-adjacent: reassociate left
	if lo.op == OpConcat && hi.op == OpExtract && lo.a[0].op == OpExtract && hi.a[0] == lo.a[0].a[0] {
		hl := int(hi.k & 0xffff)
		mh := int(lo.a[0].k >> 16)
		if hl == mh+1 {
			return tt.Concat(tt.Concat(hi, lo.a[0]), lo.a[1])
		}
	}
	return tt.mk(OpConcat, w, 0, hi, lo)
}

func (tt *TermTable) Extract(x *Term, hi, lo int) *Term {
	if hi < lo || hi >= x.w || lo < 0 {
		panic(fmt.Sprintf("Extract: bad range [%d:%d] of width %d", hi, lo, x.w))
	}
	w := hi - lo + 1
	if w == x.w {
		return x
	}
	switch x.op {
	case OpConst:
		r := new(big.Int).Rsh(cBig(x), uint(lo))
		return tt.BVBig(w, r)
	case OpExtract:
		l2 := int(x.k & 0xffff)
		return tt.Extract(x.a[0], hi+l2, lo+l2)
	case OpConcat:
		lw := x.a[1].w
		if hi < lw {
			return tt.Extract(x.a[1], hi, lo)
		}
		if lo >= lw {
			return tt.Extract(x.a[0], hi-lw, lo-lw)
		}
		return tt.Concat(tt.Extract(x.a[0], hi-lw, 0), tt.Extract(x.a[1], lw-1, lo))
	case OpZExt:
		iw := x.a[0].w
		if hi < iw {
			return tt.Extract(x.a[0], hi, lo)
		}
		if lo >= iw {
			return tt.zero(w)
		}
		return tt.ZExt(tt.Extract(x.a[0], iw-1, lo), w)
	case OpSExt:
		iw := x.a[0].w
		if hi < iw {
			return tt.Extract(x.a[0], hi, lo)
		}
	case OpAnd, OpOr, OpXor:
		// bitwise operations commute with extraction
		return tt.Bin(x.op, tt.Extract(x.a[0], hi, lo), tt.Extract(x.a[1], hi, lo))
	case OpNot:
		return tt.Un(OpNot, tt.Extract(x.a[0], hi, lo))
	case OpAdd, OpSub, OpMul:
		if lo == 0 { // low bits of modular arithmetic
			return tt.Bin(x.op, tt.Extract(x.a[0], hi, 0), tt.Extract(x.a[1], hi, 0))
		}
	case OpIte:
		if x.a[1].op == OpConst && x.a[2].op == OpConst {
			return tt.Ite(x.a[0], tt.Extract(x.a[1], hi, lo), tt.Extract(x.a[2], hi, lo))
		}
	}
	return tt.mk(OpExtract, w, uint64(hi)<<16|uint64(lo), x)
}

func (tt *TermTable) ZExt(x *Term, w int) *Term {
	if w == x.w {
		return x
	}
	if w < x.w {
		panic("ZExt: narrowing")
	}
	if x.op == OpConst {
		return tt.BVBig(w, cBig(x))
	}
	if x.op == OpZExt {
		return tt.ZExt(x.a[0], w)
	}
	return tt.mk(OpZExt, w, 0, x)
}

func (tt *TermTable) SExt(x *Term, w int) *Term {
	if w == x.w {
		return x
	}
	if w < x.w {
		panic("SExt: narrowing")
	}
	if x.op == OpConst {
		v := sBig(x)
		if v.Sign() < 0 {
			v.Add(v, new(big.Int).Lsh(big.NewInt(1), uint(w)))
		}
		return tt.BVBig(w, v)
	}
	if x.op == OpZExt { // top bit known zero
		return tt.ZExt(x.a[0], w)
	}
	if x.op == OpSExt {
		return tt.SExt(x.a[0], w)
	}
	return tt.mk(OpSExt, w, 0, x)
}

// Resize converts x to width w, truncating or extending (signed selects sign extension).
func (tt *TermTable) Resize(x *Term, w int, signed bool) *Term {
	switch {
	case w == x.w:
		return x
	case w < x.w:
		return tt.Extract(x, w-1, 0)
	case signed:
		return tt.SExt(x, w)
	default:
		return tt.ZExt(x, w)
	}
}

func (tt *TermTable) Ite(c, x, y *Term) *Term {
	if c == tt.T {
		return x
	}
	if c == tt.F {
		return y
	}
	if x == y {
		return x
	}
	if x.w == 0 {
		if x == tt.T && y == tt.F {
			return c
		}
		if x == tt.F && y == tt.T {
			return tt.Not(c)
		}
	}
	return tt.mk(OpIte, x.w, 0, c, x, y)
}

// ---------------------------------------------------------------- predicates

func (tt *TermTable) Eq(x, y *Term) *Term {
	if x.w != y.w {
		panic(fmt.Sprintf("Eq: width mismatch %d vs %d", x.w, y.w))
	}
	if x == y {
		return tt.T
	}
	if x.IsConst() && y.IsConst() {
		return tt.F // hash-consed: distinct constants are different
	}
	if x.w == 0 {
		if x == tt.T {
			return y
		}
		if y == tt.T {
			return x
		}
		if x == tt.F {
			return tt.Not(y)
		}
		if y == tt.F {
			return tt.Not(x)
		}
	}
	if x.IsConst() {
		x, y = y, x
	}
	if y.op == OpConst {
		switch x.op {
		case OpZExt:
			iw := x.a[0].w
			if tt.highZeros(y) < x.w-iw {
				return tt.F
			}
			return tt.Eq(x.a[0], tt.Extract(y, iw-1, 0))
		case OpConcat:
			lw := x.a[1].w
			return tt.And(tt.Eq(x.a[0], tt.Extract(y, x.w-1, lw)), tt.Eq(x.a[1], tt.Extract(y, lw-1, 0)))
		case OpIte:
			if x.a[1].IsConst() && x.a[2].IsConst() {
				return tt.Ite(x.a[0], tt.Eq(x.a[1], y), tt.Eq(x.a[2], y))
			}
		case OpAdd:
			if x.a[1].op == OpConst {
				return tt.Eq(x.a[0], tt.Bin(OpSub, y, x.a[1]))
			}
		case OpXor:
			if x.a[1].op == OpConst {
				return tt.Eq(x.a[0], tt.Bin(OpXor, y, x.a[1]))
			}
		}
	}
	if x.op == OpZExt && y.op == OpZExt && x.a[0].w == y.a[0].w {
		return tt.Eq(x.a[0], y.a[0])
	}
	if x.op == OpConcat && y.op == OpConcat && x.a[1].w == y.a[1].w {
		return tt.And(tt.Eq(x.a[0], y.a[0]), tt.Eq(x.a[1], y.a[1]))
	}
	if x.id > y.id && !y.IsConst() {
		x, y = y, x
	}
	return tt.mk(OpEq, 0, 0, x, y)
}

func (tt *TermTable) Cmp(op Op, x, y *Term) *Term {
	if x.w != y.w {
		panic("Cmp: width mismatch")
	}
	if x.op == OpConst && y.op == OpConst {
		var c int
		if op == OpULt || op == OpULe {
			c = cBig(x).Cmp(cBig(y))
		} else {
			c = sBig(x).Cmp(sBig(y))
		}
		if op == OpULt || op == OpSLt {
			return tt.Bool(c < 0)
		}
		return tt.Bool(c <= 0)
	}
	if x == y {
		return tt.Bool(op == OpULe || op == OpSLe)
	}
	w := x.w
	switch op {
	case OpULt:
		if isZero(y) {
			return tt.F
		}
		if isZero(x) {
			return tt.Not(tt.Eq(y, x))
		}
	case OpULe:
		if isZero(x) {
			return tt.T
		}
		if isAllOnes(y) {
			return tt.T
		}
	}
	// unsigned/signed compares of zero-extended values against constants: narrow
	if x.op == OpZExt && y.op == OpConst && w <= 64 {
		iw := x.a[0].w
		signedNeg := (op == OpSLt || op == OpSLe) && sext64(y.k, w) < 0
		if signedNeg {
			return tt.F // x >= 0 > y
		}
		if y.k > mask(iw) {
			return tt.T
		}
		uop := OpULt
		if op == OpULe || op == OpSLe {
			uop = OpULe
		}
		return tt.Cmp(uop, x.a[0], tt.BV(iw, y.k))
	}
	if y.op == OpZExt && x.op == OpConst && w <= 64 {
		iw := y.a[0].w
		signedNeg := (op == OpSLt || op == OpSLe) && sext64(x.k, w) < 0
		if signedNeg {
			return tt.T
		}
		if x.k > mask(iw) {
			return tt.F
		}
		uop := OpULt
		if op == OpULe || op == OpSLe {
			uop = OpULe
		}
		return tt.Cmp(uop, tt.BV(iw, x.k), y.a[0])
	}
	if x.op == OpZExt && y.op == OpZExt && x.a[0].w == y.a[0].w {
		uop := OpULt
		if op == OpULe || op == OpSLe {
			uop = OpULe
		}
		return tt.Cmp(uop, x.a[0], y.a[0])
	}
	return tt.mk(op, 0, 0, x, y)
}

func (tt *TermTable) Not(x *Term) *Term {
	switch x.op {
	case OpTrue:
		return tt.F
	case OpFalse:
		return tt.T
	case OpBNot:
		return x.a[0]
	}
	return tt.mk(OpBNot, 0, 0, x)
}

func (tt *TermTable) And(xs ...*Term) *Term { return tt.nary(OpBAnd, xs) }
func (tt *TermTable) Or(xs ...*Term) *Term  { return tt.nary(OpBOr, xs) }

func (tt *TermTable) nary(op Op, xs []*Term) *Term {
	unit, zero := tt.T, tt.F
	if op == OpBOr {
		unit, zero = tt.F, tt.T
	}
	var out []*Term
	seen := map[uint32]bool{}
	var add func(x *Term) bool
	add = func(x *Term) bool {
		if x == unit {
			return true
		}
		if x == zero {
			return false
		}
		if x.op == op {
			for _, y := range x.a {
				if !add(y) {
					return false
				}
			}
			return true
		}
		if seen[x.id] {
			return true
		}
		seen[x.id] = true
		out = append(out, x)
		return true
	}
	for _, x := range xs {
		if x.w != 0 {
			panic("nary: non-bool")
		}
		if !add(x) {
			return zero
		}
	}
	// x and not x
	for _, x := range out {
		if x.op == OpBNot && seen[x.a[0].id] {
			return zero
		}
	}
	switch len(out) {
	case 0:
		return unit
	case 1:
		return out[0]
	}
	return tt.mk(op, 0, 0, out...)
}

func (tt *TermTable) Implies(a, b *Term) *Term { return tt.Or(tt.Not(a), b) }

// UF application. argument widths and result width fix the declaration.
func (tt *TermTable) UF(name string, ret int, args ...*Term) *Term {
	name = sanitize(name)
	d := tt.ufs[name]
	if d == nil {
		d = &ufDecl{name: name, ret: ret}
		for _, a := range args {
			d.args = append(d.args, a.w)
		}
		tt.ufs[name] = d
	} else {
		if d.ret != ret || len(d.args) != len(args) {
			panic("UF " + name + ": inconsistent declaration")
		}
		for i, a := range args {
			if d.args[i] != a.w {
				panic("UF " + name + ": inconsistent argument width")
			}
		}
	}
	return tt.intern(&Term{op: OpUF, w: ret, name: name, a: args})
}

// ---------------------------------------------------------------- printing

func sortStr(w int) string {
	if w == 0 {
		return "Bool"
	}
	return fmt.Sprintf("(_ BitVec %d)", w)
}

func constStr(t *Term) string {
	switch t.op {
	case OpTrue:
		return "true"
	case OpFalse:
		return "false"
	}
	if t.w%4 == 0 {
		s := cBig(t).Text(16)
		return "#x" + strings.Repeat("0", t.w/4-len(s)) + s
	}
	s := cBig(t).Text(2)
	return "#b" + strings.Repeat("0", t.w-len(s)) + s
}

var opNames = map[Op]string{
	OpAdd: "bvadd", OpSub: "bvsub", OpMul: "bvmul", OpUDiv: "bvudiv", OpURem: "bvurem",
	OpSDiv: "bvsdiv", OpSRem: "bvsrem", OpAnd: "bvand", OpOr: "bvor", OpXor: "bvxor",
	OpNot: "bvnot", OpNeg: "bvneg", OpShl: "bvshl", OpLShr: "bvlshr", OpAShr: "bvashr",
	OpConcat: "concat", OpIte: "ite", OpEq: "=", OpULt: "bvult", OpULe: "bvule",
	OpSLt: "bvslt", OpSLe: "bvsle", OpBAnd: "and", OpBOr: "or", OpBNot: "not",
}

// String renders a (small) term for diagnostics.
func (t *Term) String() string {
	return t.render(func(c *Term) string { return c.String() })
}

func (t *Term) render(ref func(*Term) string) string {
	switch t.op {
	case OpConst, OpTrue, OpFalse:
		return constStr(t)
	case OpVar:
		return "|" + t.name + "|"
	case OpExtract:
		return fmt.Sprintf("((_ extract %d %d) %s)", t.k>>16, t.k&0xffff, ref(t.a[0]))
	case OpZExt:
		return fmt.Sprintf("((_ zero_extend %d) %s)", t.w-t.a[0].w, ref(t.a[0]))
	case OpSExt:
		return fmt.Sprintf("((_ sign_extend %d) %s)", t.w-t.a[0].w, ref(t.a[0]))
	case OpUF:
		if len(t.a) == 0 {
			return t.name
		}
		var sb strings.Builder
		sb.WriteString("(" + t.name)
		for _, x := range t.a {
			sb.WriteString(" " + ref(x))
		}
		sb.WriteString(")")
		return sb.String()
	}
	var sb strings.Builder
	sb.WriteString("(" + opNames[t.op])
	for _, x := range t.a {
		sb.WriteString(" " + ref(x))
	}
	sb.WriteString(")")
	return sb.String()
}

// evalModel evaluates t under an assignment of variables (missing vars = 0).
// UF applications are looked up in ufvals by rendered key; absent -> 0.
func (tt *TermTable) evalConst(t *Term, env map[string]*Term) *Term {
	memo := map[uint32]*Term{}
	var ev func(t *Term) *Term
	ev = func(t *Term) *Term {
		if t.IsConst() {
			return t
		}
		if r, ok := memo[t.id]; ok {
			return r
		}
		var r *Term
		switch t.op {
		case OpVar:
			if v, ok := env[t.name]; ok {
				r = v
			} else if t.w == 0 {
				r = tt.F
			} else {
				r = tt.zero(t.w)
			}
		case OpUF:
			r = nil
		default:
			args := make([]*Term, len(t.a))
			ok := true
			for i, x := range t.a {
				args[i] = ev(x)
				if args[i] == nil {
					ok = false
				}
			}
			if ok {
				r = tt.rebuild(t, args)
			}
		}
		memo[t.id] = r
		return r
	}
	return ev(t)
}

func (tt *TermTable) rebuild(t *Term, a []*Term) *Term {
	switch t.op {
	case OpAdd, OpSub, OpMul, OpUDiv, OpURem, OpSDiv, OpSRem, OpAnd, OpOr, OpXor, OpShl, OpLShr, OpAShr:
		return tt.Bin(t.op, a[0], a[1])
	case OpNot, OpNeg:
		return tt.Un(t.op, a[0])
	case OpConcat:
		return tt.Concat(a[0], a[1])
	case OpExtract:
		return tt.Extract(a[0], int(t.k>>16), int(t.k&0xffff))
	case OpZExt:
		return tt.ZExt(a[0], t.w)
	case OpSExt:
		return tt.SExt(a[0], t.w)
	case OpIte:
		return tt.Ite(a[0], a[1], a[2])
	case OpEq:
		return tt.Eq(a[0], a[1])
	case OpULt, OpULe, OpSLt, OpSLe:
		return tt.Cmp(t.op, a[0], a[1])
	case OpBAnd:
		return tt.And(a...)
	case OpBOr:
		return tt.Or(a...)
	case OpBNot:
		return tt.Not(a[0])
	case OpUF:
		return tt.UF(t.name, t.w, a...)
	}
	panic("rebuild: op")
}

package main

// net parsing/printing, sort.Slice, protobuf runtime.

import (
	"encoding/hex"
	"fmt"
	"go/types"
	"net"
	"os"
	"path/filepath"
	"strconv"
	"strings"

	"golang.org/x/tools/go/ssa"
)

// StrTok is an abstract string with structured content (an IP or CIDR printed
// from symbolic bytes).  Only the intrinsics that understand it may look inside.
type StrTok struct {
	kind string  // "ip" | "cidr"
	ip   []*Term // 16 bytes (canonical To16 form) for "ip"; 4 or 16 for "cidr"
	ones int
	pt   *ProtoTok // kind "proto": a marshalled message converted to string
	host *HostTok  // kind "host": structured host / host:port
}

func (w *World) to16(bs []*Term) []*Term {
	if len(bs) == 16 {
		return bs
	}
	out := make([]*Term, 16)
	for i := 0; i < 10; i++ {
		out[i] = w.tt.BV(8, 0)
	}
	out[10], out[11] = w.tt.BV(8, 0xff), w.tt.BV(8, 0xff)
	copy(out[12:], bs)
	return out
}

func (w *World) ipString(fr *frame, bs []*Term) Str {
	if cb, ok := w.concBytes(bs); ok {
		return Str{s: net.IP(cb).String()}
	}
	if len(bs) != 4 && len(bs) != 16 {
		// net.IP.String of a wrong-length address: "?" followed by the hex digits
		return Str{tok: &StrTok{kind: "badip", ip: bs}}
	}
	return Str{tok: &StrTok{kind: "ip", ip: w.to16(bs)}}
}

// tokEq compares two strings at least one of which is a token.
func (w *World) tokEq(x, y Str) *Term {
	if hx, hy := w.hostTok(x), w.hostTok(y); hx != nil && hy != nil && (x.tok.kind == "host" || y.tok.kind == "host") {
		return w.hostEq(hx, hy)
	}
	if (x.tok != nil && x.tok.kind == "host") || (y.tok != nil && y.tok.kind == "host") {
		// host token against a concrete string: equal only if the concrete string is empty and so is the token
		h := w.hostTok(x)
		o := y
		if h == nil {
			h, o = w.hostTok(y), x
		}
		if cs, ok := o.Concrete(); ok {
			if h.ip == nil && !h.full {
				return w.tt.Bool(cs == h.name)
			}
			if cs == "" {
				return w.tt.F
			}
		}
		panic(pathEnd{"unsupported", "comparison of a structured host string with a concrete string"})
	}
	if (x.tok != nil && x.tok.kind == "badip") || (y.tok != nil && y.tok.kind == "badip") {
		t, o := x, y
		if t.tok == nil || t.tok.kind != "badip" {
			t, o = y, x
		}
		var ob []*Term
		if o.tok != nil {
			if o.tok.kind != "badip" {
				return w.tt.F // starts with '?': no address, CIDR or host print does
			}
			ob = o.tok.ip
		} else if cs, ok := o.Concrete(); ok {
			if len(cs) != 1+2*len(t.tok.ip) || cs[0] != '?' {
				return w.tt.F
			}
			raw, err := hex.DecodeString(cs[1:])
			if err != nil || strings.ToLower(cs[1:]) != cs[1:] {
				return w.tt.F
			}
			ob = bytesToTerms(w, raw)
		} else {
			panic(pathEnd{"unsupported", "comparison of a wrong-length address print with a symbolic string"})
		}
		if len(ob) != len(t.tok.ip) {
			return w.tt.F
		}
		conj := make([]*Term, len(ob))
		for i := range ob {
			conj[i] = w.tt.Eq(ob[i], t.tok.ip[i])
		}
		return w.tt.And(conj...)
	}
	// printed CIDRs: net.IP.String is injective on the canonical 16-byte form, so two
	// prints are equal iff the addresses (To16) and the prefix lengths are
	cidrOf := func(s Str) ([]*Term, int, bool) {
		if s.tok != nil {
			if s.tok.kind != "cidr" {
				return nil, 0, false
			}
			return w.to16(s.tok.ip), s.tok.ones, true
		}
		cs, ok := s.Concrete()
		if !ok {
			return nil, 0, false
		}
		i := strings.IndexByte(cs, '/')
		if i < 0 {
			return nil, 0, false
		}
		ip := net.ParseIP(cs[:i])
		n, err := strconv.Atoi(cs[i+1:])
		if ip == nil || ip.String() != cs[:i] || err != nil || strconv.Itoa(n) != cs[i+1:] {
			return nil, 0, false
		}
		return w.to16(bytesToTerms(w, ip.To16())), n, true
	}
	if (x.tok != nil && x.tok.kind == "cidr") || (y.tok != nil && y.tok.kind == "cidr") {
		a, na, ok1 := cidrOf(x)
		b, nb, ok2 := cidrOf(y)
		if ok1 && ok2 {
			if na != nb {
				return w.tt.F
			}
			conj := make([]*Term, 16)
			for i := range conj {
				conj[i] = w.tt.Eq(a[i], b[i])
			}
			return w.tt.And(conj...)
		}
		if _, isC := x.Concrete(); isC || x.tok != nil {
			if _, isC := y.Concrete(); isC || y.tok != nil {
				return w.tt.F // a printed CIDR never equals an address print or a string that is not a canonical CIDR
			}
		}
	}
	bytesOf := func(s Str) ([]*Term, bool) {
		if s.tok != nil {
			if s.tok.kind != "ip" {
				return nil, false
			}
			return s.tok.ip, true
		}
		cs, ok := s.Concrete()
		if !ok {
			return nil, false
		}
		ip := net.ParseIP(cs)
		if ip == nil || ip.String() != cs {
			return nil, false // not the canonical print of an address: cannot be equal
		}
		return w.to16(bytesToTerms(w, ip.To16())), true
	}
	a, ok1 := bytesOf(x)
	b, ok2 := bytesOf(y)
	if !ok1 || !ok2 {
		if x.tok != nil && y.tok != nil && x.tok.kind != y.tok.kind {
			return w.tt.F
		}
		if (x.tok != nil && x.tok.kind == "ip" && !ok2 && y.tok == nil && !y.opq && y.b == nil) ||
			(y.tok != nil && y.tok.kind == "ip" && !ok1 && x.tok == nil && !x.opq && x.b == nil) {
			return w.tt.F
		}
		// a byte string whose length no address print of that family can have is different
		lenRule := func(t, o Str) bool {
			if t.tok == nil || t.tok.kind != "ip" || o.tok != nil || o.opq || o.cat != nil {
				return false
			}
			minL, maxL := 2, 39 // "::" ... full IPv6 (an embedded IPv4 form is at most 45; be generous)
			maxL = 45
			mapped := len(t.tok.ip) == 16
			if mapped {
				want := []uint64{0, 0, 0, 0, 0, 0, 0, 0, 0, 0, 0xff, 0xff}
				for i, x := range want {
					if c, ok := t.tok.ip[i].Const64(); !ok || c != x {
						mapped = false
						break
					}
				}
			}
			if mapped {
				minL, maxL = 7, 15 // dotted quad
			}
			return o.Len() < minL || o.Len() > maxL
		}
		if lenRule(x, y) || lenRule(y, x) {
			return w.tt.F
		}
		panic(pathEnd{"unsupported", "comparison of an abstract address string with a symbolic string"})
	}
	conj := make([]*Term, 16)
	for i := range conj {
		conj[i] = w.tt.Eq(a[i], b[i])
	}
	return w.tt.And(conj...)
}

func bytesToTerms(w *World, b []byte) []*Term {
	out := make([]*Term, len(b))
	for i, c := range b {
		out[i] = w.tt.BV(8, uint64(c))
	}
	return out
}

func (w *World) mkIPNet(fr *frame, t types.Type, ip, mask []*Term) *Value {
	cell := new(Value)
	*cell = w.zero(deref(t))
	s := (*cell).(Struct)
	s[0] = w.byteSlice(ip)
	s[1] = w.byteSlice(mask)
	return cell
}

func cidrMask(ones, bits int) []byte { return net.CIDRMask(ones, bits) }

func init() {
	reg("net.ParseIP", func(w *World, t *Thread, fr *frame, fn *ssa.Function, args []Value) Value {
		s := args[0].(Str)
		if s.tok != nil && s.tok.kind == "ip" {
			return w.byteSlice(s.tok.ip)
		}
		if s.tok != nil && (s.tok.kind == "badip" || s.tok.kind == "cidr") {
			return []Value(nil) // "?hex" and "addr/len" are not address literals
		}
		cs := w.concStr(fr, s, "net.ParseIP")
		ip := net.ParseIP(cs)
		if ip == nil {
			return []Value(nil)
		}
		return w.constBytes(ip)
	})
	reg("net.ParseCIDR", func(w *World, t *Thread, fr *frame, fn *ssa.Function, args []Value) Value {
		s := args[0].(Str)
		nt := fn.Signature.Results().At(1).Type()
		if s.tok != nil && s.tok.kind == "cidr" {
			ip := s.tok.ip
			bits := 8 * len(ip)
			m := cidrMask(s.tok.ones, bits)
			masked := make([]*Term, len(ip))
			for i := range ip {
				masked[i] = w.tt.Bin(OpAnd, ip[i], w.tt.BV(8, uint64(m[i])))
			}
			return Tuple{w.byteSlice(w.to16(ip)), w.mkIPNet(fr, nt, masked, bytesToTerms(w, m)), w.nilError()}
		}
		cs := w.concStr(fr, s, "net.ParseCIDR")
		ip, n, err := net.ParseCIDR(cs)
		if err != nil {
			return Tuple{[]Value(nil), (*Value)(nil), w.mkError(err.Error())}
		}
		return Tuple{w.constBytes(ip), w.mkIPNet(fr, nt, bytesToTerms(w, n.IP), bytesToTerms(w, n.Mask)), w.nilError()}
	})
	reg("(net.IP).String", func(w *World, t *Thread, fr *frame, fn *ssa.Function, args []Value) Value {
		return w.ipString(fr, w.bytesOf(args[0]))
	})
	reg("(*net.IPNet).String", func(w *World, t *Thread, fr *frame, fn *ssa.Function, args []Value) Value {
		p := args[0].(*Value)
		if p == nil {
			return Str{s: "<nil>"}
		}
		s := (*p).(Struct)
		ip, ok1 := w.concBytes(w.bytesOf(s[0]))
		m, ok2 := w.concBytes(w.bytesOf(s[1]))
		if ok1 && ok2 {
			n := net.IPNet{IP: ip, Mask: m}
			return Str{s: n.String()}
		}
		return Str{opq: true}
	})
	reg("net.JoinHostPort", func(w *World, t *Thread, fr *frame, fn *ssa.Function, args []Value) Value {
		h, p := args[0].(Str), args[1].(Str)
		hs, ok1 := h.Concrete()
		ps, ok2 := p.Concrete()
		if ok1 && ok2 {
			return Str{s: net.JoinHostPort(hs, ps), taint: h.taint | p.taint}
		}
		return Str{opq: true, taint: h.taint | p.taint}
	})
	reg("net.SplitHostPort", func(w *World, t *Thread, fr *frame, fn *ssa.Function, args []Value) Value {
		cs := w.concStr(fr, args[0], "net.SplitHostPort")
		h, p, err := net.SplitHostPort(cs)
		if err != nil {
			return Tuple{Str{}, Str{}, w.mkError(err.Error())}
		}
		return Tuple{Str{s: h}, Str{s: p}, w.nilError()}
	})
	reg("strconv.Itoa", func(w *World, t *Thread, fr *frame, fn *ssa.Function, args []Value) Value {
		x := args[0].(*Term)
		if c, ok := x.Const64(); ok {
			return Str{s: strconv.Itoa(int(int64(c)))}
		}
		return Str{opq: true}
	})
	reg("strconv.FormatInt", func(w *World, t *Thread, fr *frame, fn *ssa.Function, args []Value) Value {
		x, b := args[0].(*Term), args[1].(*Term)
		c, ok := x.Const64()
		bc, ok2 := b.Const64()
		if ok && ok2 {
			return Str{s: strconv.FormatInt(int64(c), int(bc))}
		}
		return Str{opq: true}
	})
	reg("strconv.FormatUint", func(w *World, t *Thread, fr *frame, fn *ssa.Function, args []Value) Value {
		x, b := args[0].(*Term), args[1].(*Term)
		c, ok := x.Const64()
		bc, ok2 := b.Const64()
		if ok && ok2 {
			return Str{s: strconv.FormatUint(c, int(bc))}
		}
		return Str{opq: true}
	})

	// tokens made by the harness
	reg("verifnd.CIDR", func(w *World, t *Thread, fr *frame, fn *ssa.Function, args []Value) Value {
		ip := w.bytesOf(args[0])
		ones := int(w.concreteInt(fr, args[1], "CIDR prefix length"))
		if len(ip) != 4 && len(ip) != 16 || ones < 0 || ones > 8*len(ip) {
			w.unsupported(fr, "verifnd.CIDR: bad address length or prefix")
		}
		if cb, ok := w.concBytes(ip); ok {
			return Str{s: fmt.Sprintf("%s/%d", net.IP(cb).String(), ones)}
		}
		return Str{tok: &StrTok{kind: "cidr", ip: ip, ones: ones}}
	})
	reg("verifnd.IPString", func(w *World, t *Thread, fr *frame, fn *ssa.Function, args []Value) Value {
		return w.ipString(fr, w.bytesOf(args[0]))
	})

	// ---- sort.Slice: the insertion sort Go uses for n <= 12
	reg("sort.Slice", func(w *World, t *Thread, fr *frame, fn *ssa.Function, args []Value) Value {
		w.sortSlice(t, fr, args[0], args[1], false)
		return nil
	})
	reg("sort.SliceStable", func(w *World, t *Thread, fr *frame, fn *ssa.Function, args []Value) Value {
		w.sortSlice(t, fr, args[0], args[1], true)
		return nil
	})
}

func (w *World) sortSlice(t *Thread, fr *frame, x Value, less Value, stable bool) {
	itf := x.(Iface)
	s, ok := itf.v.([]Value)
	if !ok {
		w.unsupported(fr, "sort.Slice of a non-slice")
	}
	n := len(s)
	if n > 12 {
		w.unsupported(fr, "sort.Slice of more than 12 elements (pdqsort not modelled)")
	}
	lessf := func(i, j int) bool {
		r := w.callValue(t, fr, less, []Value{w.tt.BV(64, uint64(i)), w.tt.BV(64, uint64(j))})
		return w.decideBool(r.(*Term), "sort.less")
	}
	for i := 1; i < n; i++ {
		for j := i; j > 0 && lessf(j, j-1); j-- {
			a, b := copyVal(s[j]), copyVal(s[j-1])
			w.store(&s[j], b)
			w.store(&s[j-1], a)
		}
	}
}

// enumStringIntrinsic: String() of a generated protobuf enum via its X_name map.
func enumStringIntrinsic(w *World, t *Thread, fr *frame, fn *ssa.Function, args []Value) Value {
	n := fn.Signature.Recv().Type().(*types.Named)
	g := fn.Pkg.Members[n.Obj().Name()+"_name"].(*ssa.Global)
	m, _ := (*w.globals[g]).(*Map)
	x := args[0].(*Term)
	c, ok := x.Const64()
	if !ok {
		return Str{opq: true}
	}
	if m != nil {
		for _, e := range m.entries() {
			if k, ok := e.k.(*Term).Const64(); ok && k == c {
				return e.v
			}
		}
	}
	return Str{s: strconv.Itoa(int(int32(c)))}
}

func init() {
	// DTLS certificates from a seed: x509/ecdsa machinery, third party; the model yields two
	// certificate objects (what must agree between the ends - the HKDF draws - is C01's subject)
	reg(repoMod+"/pkg/dtls.certsFromSeed", func(w *World, t *Thread, fr *frame, fn *ssa.Function, args []Value) Value {
		rt := fn.Signature.Results().At(0).Type()
		a, b := new(Value), new(Value)
		*a, *b = w.zero(deref(rt)), w.zero(deref(rt))
		return Tuple{a, b, w.nilError()}
	})
	// metrics: a statsd-like side channel, environment
	nopM := func(w *World, t *Thread, fr *frame, fn *ssa.Function, args []Value) Value { return w.zeroResults(fn) }
	reg("(*"+repoMod+"/pkg/metrics.Metrics).Add", nopM)
	reg("github.com/sirupsen/logrus.New", func(w *World, t *Thread, fr *frame, fn *ssa.Function, args []Value) Value {
		cell := new(Value)
		*cell = w.zero(deref(fn.Signature.Results().At(0).Type()))
		return cell
	})
	reg(repoMod+"/pkg/metrics.NewMetrics", func(w *World, t *Thread, fr *frame, fn *ssa.Function, args []Value) Value {
		cell := new(Value)
		*cell = w.zero(deref(fn.Signature.Results().At(0).Type()))
		return cell
	})
	// ed25519: sign = token over (key, message); nothing else verifies
	edSign := func(w *World, t *Thread, fr *frame, fn *ssa.Function, args []Value) Value {
		out := make([]Value, 64)
		for i := range out {
			out[i] = w.tt.Fresh("ed25519sig", 8)
		}
		return out
	}
	reg("github.com/refraction-networking/ed25519.Sign", edSign)
	reg("crypto/ed25519.Sign", edSign)
	// loading the subnet file is environment: a reload yields a fresh selector (or fails)
	reg(repoMod+"/pkg/phantoms.GetPhantomSubnetSelector", func(w *World, t *Thread, fr *frame, fn *ssa.Function, args []Value) Value {
		st := fn.Signature.Results().At(0).Type()
		var loads []bool
		if v, ok := w.ext["subnetloads"]; ok {
			loads = v.([]bool)
		}
		failed := w.decideBool(w.freshND("subnet-file-unreadable", "env-bool", 0), "subnet file load")
		w.ext["subnetloads"] = append(loads[:len(loads):len(loads)], failed)
		if failed {
			return Tuple{(*Value)(nil), w.mkError("error opening configuration file")}
		}
		cell := new(Value)
		*cell = w.zero(deref(st))
		mt := deref(st).Underlying().(*types.Struct).Field(0).Type().Underlying().(*types.Map)
		(*cell).(Struct)[0] = &Map{kt: mt.Key(), vt: mt.Elem(), ents: []mapEnt(nil)}
		return Tuple{cell, w.nilError()}
	})
	reg("verifnd.SubnetLoadFailed", func(w *World, t *Thread, fr *frame, fn *ssa.Function, args []Value) Value {
		i := int(w.concreteInt(fr, args[0], "index"))
		if v, ok := w.ext["subnetloads"]; ok && i < len(v.([]bool)) {
			return w.tt.Bool(v.([]bool)[i])
		}
		return w.tt.F
	})
	reg("verifnd.ShippedList", func(w *World, t *Thread, fr *frame, fn *ssa.Function, args []Value) Value {
		key := w.concStr(fr, args[0], "key")
		b, err := os.ReadFile(filepath.Join(w.pi.mirror, "cmd", "application", "app_config.toml"))
		if err != nil {
			return []Value(nil)
		}
		out := []Value{}
		for _, s := range parseTomlStringList(string(b), key) {
			out = append(out, Str{s: s})
		}
		return out
	})
	reg("github.com/oschwald/geoip2-golang.Open", func(w *World, t *Thread, fr *frame, fn *ssa.Function, args []Value) Value {
		if w.decideBool(w.freshND("geoip-db-unreadable", "env-bool", 0), "geoip db") {
			return Tuple{(*Value)(nil), w.mkError("open geoip database: no such file or directory")}
		}
		cell := new(Value)
		*cell = w.zero(deref(fn.Signature.Results().At(0).Type()))
		return Tuple{cell, w.nilError()}
	})
	reg("os.Setenv", func(w *World, t *Thread, fr *frame, fn *ssa.Function, args []Value) Value {
		w.ext["env:"+w.concStr(fr, args[0], "env key")] = args[1]
		return w.nilError()
	})
	// encoding/json.Marshal: reflection; the result only feeds log lines here.
	reg("encoding/json.Marshal", func(w *World, t *Thread, fr *frame, fn *ssa.Function, args []Value) Value {
		return Tuple{w.constBytes([]byte(`{"json":"opaque"}`)), w.nilError()}
	})
	reg("time.NewTicker", func(w *World, t *Thread, fr *frame, fn *ssa.Function, args []Value) Value {
		tt := fn.Signature.Results().At(0).Type()
		cell := new(Value)
		*cell = w.zero(deref(tt))
		(*cell).(Struct)[0] = w.newChan(1)
		return cell
	})
	// time.NewTimer / time.After: a timer whose channel never delivers (the model explores the
	// executions in which no timeout elapses; what happens when one does is outside, recorded as a cut)
	reg("time.NewTimer", func(w *World, t *Thread, fr *frame, fn *ssa.Function, args []Value) Value {
		tt := fn.Signature.Results().At(0).Type()
		cell := new(Value)
		*cell = w.zero(deref(tt))
		if w.timersFire() {
			(*cell).(Struct)[0] = w.newModelTimer(fr, args[0].(*Term))
			return cell
		}
		(*cell).(Struct)[0] = w.newChan(1)
		if w.res != nil {
			w.res.Cuts["timers never fire (time.NewTimer / time.After / time.AfterFunc)"]++
		}
		return cell
	})
	// time.AfterFunc (context.WithTimeout/WithDeadline): the function is never run - no deadline
	// elapses in the explored executions (cut)
	reg("time.AfterFunc", func(w *World, t *Thread, fr *frame, fn *ssa.Function, args []Value) Value {
		if w.timersFire() {
			w.unsupported(fr, "time.AfterFunc under TimersFire")
		}
		tt := fn.Signature.Results().At(0).Type()
		cell := new(Value)
		*cell = w.zero(deref(tt))
		if w.res != nil {
			w.res.Cuts["timers never fire (time.NewTimer / time.After / time.AfterFunc)"]++
		}
		return cell
	})
	reg("time.After", func(w *World, t *Thread, fr *frame, fn *ssa.Function, args []Value) Value {
		if w.timersFire() {
			return w.newModelTimer(fr, args[0].(*Term))
		}
		if w.res != nil {
			w.res.Cuts["timers never fire (time.NewTimer / time.After / time.AfterFunc)"]++
		}
		return w.newChan(1)
	})
	reg("(*time.Timer).Stop", func(w *World, t *Thread, fr *frame, fn *ssa.Function, args []Value) Value {
		if w.timersFire() {
			if cell, ok := args[0].(*Value); ok && cell != nil {
				if ch, ok := (*cell).(Struct)[0].(*Chan); ok {
					return w.tt.Bool(w.stopModelTimer(ch))
				}
			}
		}
		return w.tt.T
	})
	reg("(*time.Timer).Reset", func(w *World, t *Thread, fr *frame, fn *ssa.Function, args []Value) Value { return w.tt.T })
	reg("(*time.Ticker).Stop", func(w *World, t *Thread, fr *frame, fn *ssa.Function, args []Value) Value { return nil })
	reg("(*time.Ticker).Reset", func(w *World, t *Thread, fr *frame, fn *ssa.Function, args []Value) Value { return nil })
}

// parseTomlStringList extracts `key = [ "a", "b", ... ]` (comments allowed) - the
// same reader the native verifnd package uses.
func parseTomlStringList(src, key string) []string {
	idx := -1
	for off := 0; ; {
		i := strings.Index(src[off:], key)
		if i < 0 {
			break
		}
		i += off
		if i == 0 || src[i-1] == '\n' {
			idx = i
			break
		}
		off = i + 1
	}
	if idx < 0 {
		return nil
	}
	rest := src[idx+len(key):]
	lb := strings.Index(rest, "[")
	if lb < 0 {
		return nil
	}
	out := []string{}
	inStr, inComment := false, false
	cur := ""
	for _, c := range rest[lb+1:] {
		switch {
		case inComment:
			if c == '\n' {
				inComment = false
			}
		case inStr:
			if c == '"' {
				inStr = false
				out = append(out, cur)
				cur = ""
			} else {
				cur += string(c)
			}
		case c == '"':
			inStr = true
		case c == '#':
			inComment = true
		case c == ']':
			return out
		}
	}
	return out
}

// ---- (*net.IPNet).Contains as ONE boolean term (a pure callee summarised: the
// real code branches per byte, which multiplies paths for symbolic addresses) ----

func (w *World) ip4View(ip []*Term) (*Term, []*Term) {
	switch len(ip) {
	case 4:
		return w.tt.T, ip
	case 16:
		conj := []*Term{}
		for i := 0; i < 10; i++ {
			conj = append(conj, w.tt.Eq(ip[i], w.tt.BV(8, 0)))
		}
		conj = append(conj, w.tt.Eq(ip[10], w.tt.BV(8, 0xff)), w.tt.Eq(ip[11], w.tt.BV(8, 0xff)))
		return w.tt.And(conj...), ip[12:16]
	}
	return w.tt.F, nil
}

func (w *World) ipnetContains(nip, mask, ip []*Term) *Term {
	match := func(nn, m, x []*Term) *Term {
		if nn == nil || m == nil {
			// invalid network (networkNumberAndMask returned nil, nil): the length test
			// compares with 0 and the loop is empty
			return w.tt.Bool(len(x) == 0)
		}
		if len(x) != len(nn) {
			return w.tt.F
		}
		conj := make([]*Term, len(nn))
		for i := range nn {
			conj[i] = w.tt.Eq(w.tt.Bin(OpAnd, nn[i], m[i]), w.tt.Bin(OpAnd, x[i], m[i]))
		}
		return w.tt.And(conj...)
	}
	nIs4, n4 := w.ip4View(nip)
	// networkNumberAndMask when the network address has a 4-byte form
	var m4 []*Term
	switch len(mask) {
	case 4:
		m4 = mask
	case 16:
		m4 = mask[12:]
	default:
		n4 = nil
	}
	// ... and when it has not (To4 nil): only a 16-byte address with a 16-byte mask is valid
	var n16, m16 []*Term
	if len(nip) == 16 && len(mask) == 16 {
		n16, m16 = nip, mask
	}
	xIs4, x4 := w.ip4View(ip)
	with := func(nn, m []*Term) *Term {
		if xIs4 == w.tt.F {
			return match(nn, m, ip)
		}
		return w.tt.Ite(xIs4, match(nn, m, x4), match(nn, m, ip))
	}
	if nIs4 == w.tt.T {
		return with(n4, m4)
	}
	if nIs4 == w.tt.F {
		return with(n16, m16)
	}
	return w.tt.Ite(nIs4, with(n4, m4), with(n16, m16))
}

func init() {
	reg("(*net.IPNet).Contains", func(w *World, t *Thread, fr *frame, fn *ssa.Function, args []Value) Value {
		np := args[0].(*Value)
		if np == nil {
			w.rtPanic(fr, "invalid memory address or nil pointer dereference")
		}
		st := (*np).(Struct)
		return w.ipnetContains(w.bytesOf(st[0]), w.bytesOf(st[1]), w.bytesOf(args[1]))
	})
}

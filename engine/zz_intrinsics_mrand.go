package main

// math/rand as a deterministic generator once it has been seeded.
//
// Unseeded, the package-level functions stay what they were: arbitrary values of
// their range (environment nondeterminism, intrinsics_sync.go).  After
// rand.Seed(s) - or on a *rand.Rand made by rand.New(rand.NewSource(s)) - every
// draw is an uninterpreted function of (s, number of draws since seeding): the
// same seed gives the same sequence on the global generator and on a local one
// (true of the real package: both run rngSource from the same seed), different
// call sequences give unrelated values.  The global generator is shared state
// behind a lock: Seed and every draw on it are scheduling points, so two
// goroutines that seed-then-draw can interleave.

import (
	"go/types"

	"golang.org/x/tools/go/ssa"
)

type mrandState struct {
	seed *Term
	pos  int
}

func (w *World) mrandGlobal() *mrandState {
	if v, ok := w.ext["mrand.global"]; ok {
		return v.(*mrandState)
	}
	return nil
}

func (w *World) mrandLocal(cell *Value) *mrandState {
	if v, ok := w.ext["mrand.local"]; ok {
		return v.(map[*Value]*mrandState)[cell]
	}
	return nil
}

func (w *World) mrandSetLocal(cell *Value, st *mrandState) {
	var m map[*Value]*mrandState
	if v, ok := w.ext["mrand.local"]; ok {
		m = v.(map[*Value]*mrandState)
	} else {
		m = map[*Value]*mrandState{}
		w.ext["mrand.local"] = m
	}
	m[cell] = st
}

func (w *World) mrandDraw(st *mrandState, width int) *Term {
	v := w.tt.UF("mrand.draw", 64, st.seed, w.tt.BV(64, uint64(st.pos)))
	st.pos++
	if width < 64 {
		return w.tt.Extract(v, width-1, 0)
	}
	return v
}

func init() {
	prevSeed := intrinsics["math/rand.Seed"]
	_ = prevSeed
	reg("math/rand.Seed", func(w *World, t *Thread, fr *frame, fn *ssa.Function, args []Value) Value {
		w.yield(t, "math/rand.Seed (global generator lock)")
		w.ext["mrand.global"] = &mrandState{seed: args[0].(*Term)}
		return nil
	})
	wrapGlobal := func(name string, seeded func(w *World, st *mrandState, fr *frame, args []Value) Value) {
		prev := intrinsics[name]
		reg(name, func(w *World, t *Thread, fr *frame, fn *ssa.Function, args []Value) Value {
			st := w.mrandGlobal()
			if st == nil {
				return prev(w, t, fr, fn, args)
			}
			w.yield(t, name+" (global generator lock)")
			st = w.mrandGlobal()
			return seeded(w, st, fr, args)
		})
	}
	wrapLocal := func(name string, seeded func(w *World, st *mrandState, fr *frame, args []Value) Value) {
		prev := intrinsics[name]
		reg(name, func(w *World, t *Thread, fr *frame, fn *ssa.Function, args []Value) Value {
			cell, _ := args[0].(*Value)
			st := w.mrandLocal(cell)
			if st == nil {
				return prev(w, t, fr, fn, args)
			}
			return seeded(w, st, fr, args[1:])
		})
	}
	read := func(w *World, st *mrandState, fr *frame, args []Value) Value {
		b := args[0].([]Value)
		for i := range b {
			w.store(&b[i], w.mrandDraw(st, 8))
		}
		return Tuple{w.tt.BV(64, uint64(len(b))), w.nilError()}
	}
	intn := func(width int) func(w *World, st *mrandState, fr *frame, args []Value) Value {
		return func(w *World, st *mrandState, fr *frame, args []Value) Value {
			n := args[len(args)-1].(*Term)
			if w.decideBool(w.tt.Cmp(OpSLe, n, w.tt.BV(width, 0)), "rand.Intn arg") {
				panic(goPanic{v: Iface{t: types.Typ[types.String], v: Str{s: "invalid argument to Intn"}}, where: w.where(fr)})
			}
			// an arbitrary function of (seed, position) into [0, n): the draw reduced by a second
			// uninterpreted function that is constrained to the range
			d := w.mrandDraw(st, 64)
			v := w.tt.UF("mrand.intn", 64, d, w.tt.ZExt(n, 64))
			w.assumeNoCheck(w.tt.And(w.tt.Cmp(OpSLe, w.tt.BV(64, 0), v), w.tt.Cmp(OpSLt, v, w.tt.ZExt(n, 64))))
			if width < 64 {
				return w.tt.Extract(v, width-1, 0)
			}
			return v
		}
	}
	wrapGlobal("math/rand.Read", read)
	wrapGlobal("math/rand.Intn", intn(64))
	wrapGlobal("math/rand.Int63n", intn(64))
	wrapGlobal("math/rand.Int31n", intn(32))
	wrapLocal("(*math/rand.Rand).Read", read)
	wrapLocal("(*math/rand.Rand).Intn", intn(64))
	wrapLocal("(*math/rand.Rand).Int63n", intn(64))
	wrapLocal("(*math/rand.Rand).Int31n", intn(32))

	// rand.NewSource(seed) / rand.New(src): remember the seed with the objects
	prevNS := intrinsics["math/rand.NewSource"]
	reg("math/rand.NewSource", func(w *World, t *Thread, fr *frame, fn *ssa.Function, args []Value) Value {
		r := prevNS(w, t, fr, fn, args)
		if itf, ok := r.(Iface); ok {
			if cell, ok := itf.v.(*Value); ok && cell != nil {
				w.mrandSetLocal(cell, &mrandState{seed: args[0].(*Term)})
			}
		}
		return r
	})
	prevNew := intrinsics["math/rand.New"]
	reg("math/rand.New", func(w *World, t *Thread, fr *frame, fn *ssa.Function, args []Value) Value {
		r := prevNew(w, t, fr, fn, args)
		if itf, ok := args[0].(Iface); ok {
			if src, ok := itf.v.(*Value); ok && src != nil {
				if st := w.mrandLocal(src); st != nil {
					w.mrandSetLocal(r.(*Value), &mrandState{seed: st.seed})
				}
			}
		}
		return r
	})
	reg("(*math/rand.Rand).Seed", func(w *World, t *Thread, fr *frame, fn *ssa.Function, args []Value) Value {
		if cell, ok := args[0].(*Value); ok && cell != nil {
			w.mrandSetLocal(cell, &mrandState{seed: args[1].(*Term)})
		}
		return nil
	})
}
